//! ctxapi: conformance driver for the graph-building API (property C11) and for context
//! serialization (property C12).  The binary only *records* what the real library does; every
//! comparison with the specification (spec/ContextAPI*.tla, spec/Serialization*.tla) is made by TLC.
//!
//!   ctxapi replay  <cfg.json> <paths.ndjson> <out.ndjson> [ser-out.ndjson]   (C11 B1, spec -> impl)
//!   ctxapi random  <seed> <histories> <out.ndjson> [minlen maxlen]           (C11 B2, impl -> spec)
//!   ctxapi sercases <seed> <paths-cfg.json|-> <paths.ndjson|-> <out-dir>     (C12, see below)
//!   ctxapi mutate  <bases.ndjson> <patches.ndjson> <out.ndjson>              (C12 catalogue on real JSON)
//!   ctxapi bytes   <seed> <bases.ndjson> <out.ndjson> <nflips>               (C12 byte-level mutations)
//!
//! Handles: a graph handle is [c,g] (context index, graph id), a node handle [c,g,n]; 0-based.
//! Projection of one context (the shape of the specification's state, see ContextAPI.tla):
//!   {"fin","main","ng","gret":[..per probe name..],"graphs":[{"id","fin","out","nn","name":[]|[s],"ann":[..],
//!     "nret":[..],"nodes":[{"id","op":{"o","t","i"},"deps":[[c,g,n]..],"gdeps":[[c,g]..],"ty","name","ann"}]}]}
use cc_conform::export::{type_from_json, type_json};
use cc_conform::{catch, quiet_panics, read_ndjson};
use ciphercore_base::custom_ops::CustomOperation;
use ciphercore_base::data_types::*;
use ciphercore_base::data_values::Value;
use ciphercore_base::errors::Result;
use ciphercore_base::graphs::*;
use rand::rngs::StdRng;
use rand::{Rng, SeedableRng};
use serde_json::{json, Value as Json};
use std::io::Write;
use std::panic::AssertUnwindSafe;

type GH = (usize, usize);
type NH = (usize, usize, usize);

// ------------------------------------------------------------------------------------------ world

struct World {
    ctxs: Vec<Context>,
    graphs: Vec<Vec<Graph>>,
    nodes: Vec<Vec<Vec<Node>>>,
    names: Vec<String>,
}

impl World {
    fn new(nc: usize, names: &[String]) -> World {
        World {
            ctxs: (0..nc).map(|_| create_context().unwrap()).collect(),
            graphs: vec![vec![]; nc],
            nodes: vec![vec![]; nc],
            names: names.to_vec(),
        }
    }
    fn g(&self, h: GH) -> Graph {
        self.graphs[h.0][h.1].clone()
    }
    fn n(&self, h: NH) -> Node {
        self.nodes[h.0][h.1][h.2].clone()
    }
    fn has_g(&self, h: GH) -> bool {
        h.0 < self.graphs.len() && h.1 < self.graphs[h.0].len()
    }
    fn has_n(&self, h: NH) -> bool {
        self.has_g((h.0, h.1)) && h.2 < self.nodes[h.0][h.1].len()
    }
    fn cidx(&self, c: &Context) -> i64 {
        self.ctxs.iter().position(|x| x == c).map(|i| i as i64).unwrap_or(-1)
    }
}

#[derive(Clone)]
enum Call {
    Create { c: usize },
    Add { gh: GH, deps: Vec<NH>, gdeps: Vec<GH>, op: Operation, with_type: Option<Type> },
    Out { gh: GH, nh: NH, via_node: bool },
    GFin { gh: GH },
    Main { c: usize, gh: GH, via_graph: bool },
    CFin { c: usize },
    GName { c: usize, gh: GH, nm: String, via_graph: bool },
    NName { c: usize, nh: NH, nm: String, via_node: bool },
    GAnn { gh: GH, an: GraphAnnotation },
    NAnn { nh: NH, an: NodeAnnotation },
}

fn no_t() -> Json {
    json!({"k":"none"})
}

fn variant_name(op: &Operation) -> String {
    let s = format!("{:?}", op);
    s.split(|ch: char| !(ch.is_alphanumeric() || ch == '_')).next().unwrap_or("").to_string()
}

/// Operation as the record the specification understands; operations the specification does not
/// model are tagged "X:<variant>" (their result type is taken from the log).
fn opj(op: &Operation) -> Json {
    match op {
        Operation::Input(t) => json!({"o":"Input","t":type_json(t),"i":0}),
        Operation::Add => json!({"o":"Add","t":no_t(),"i":0}),
        Operation::Subtract => json!({"o":"Subtract","t":no_t(),"i":0}),
        Operation::Multiply => json!({"o":"Multiply","t":no_t(),"i":0}),
        Operation::CreateTuple => json!({"o":"CreateTuple","t":no_t(),"i":0}),
        Operation::TupleGet(i) => json!({"o":"TupleGet","t":no_t(),"i":(*i).min(1 << 20)}),
        Operation::Call => json!({"o":"Call","t":no_t(),"i":0}),
        Operation::Constant(t, _) => json!({"o":"X:Constant","t":type_json(t),"i":0}),
        other => json!({"o":format!("X:{}", variant_name(other)),"t":no_t(),"i":0}),
    }
}

fn op_from(j: &Json) -> Operation {
    match j["o"].as_str().unwrap() {
        "Input" => Operation::Input(type_from_json(&j["t"])),
        "Add" => Operation::Add,
        "Subtract" => Operation::Subtract,
        "Multiply" => Operation::Multiply,
        "CreateTuple" => Operation::CreateTuple,
        "TupleGet" => Operation::TupleGet(j["i"].as_u64().unwrap()),
        "Call" => Operation::Call,
        "X:Iterate" => Operation::Iterate,
        "X:NOP" => Operation::NOP,
        o => panic!("op_from: unsupported {o}"),
    }
}

fn gh_j(h: GH) -> Json {
    json!([h.0, h.1])
}
fn nh_j(h: NH) -> Json {
    json!([h.0, h.1, h.2])
}
fn gh_from(j: &Json) -> GH {
    (j[0].as_u64().unwrap() as usize, j[1].as_u64().unwrap() as usize)
}
fn nh_from(j: &Json) -> NH {
    (j[0].as_u64().unwrap() as usize, j[1].as_u64().unwrap() as usize, j[2].as_u64().unwrap() as usize)
}

fn nann_str(a: &NodeAnnotation) -> String {
    format!("{:?}", a).replace(' ', "")
}
fn gann_str(a: &GraphAnnotation) -> String {
    format!("{:?}", a)
}
fn nann_from(s: &str) -> NodeAnnotation {
    match s {
        "AssociativeOperation" => NodeAnnotation::AssociativeOperation,
        "Private" => NodeAnnotation::Private,
        "PRFMultiplication" => NodeAnnotation::PRFMultiplication,
        "PRFB2A" => NodeAnnotation::PRFB2A,
        "PRFTruncate" => NodeAnnotation::PRFTruncate,
        "MpcCall" => NodeAnnotation::MpcCall,
        s if s.starts_with("Send(") => {
            let v: Vec<u64> = s[5..s.len() - 1].split(',').map(|x| x.trim().parse().unwrap()).collect();
            NodeAnnotation::Send(v[0], v[1])
        }
        _ => panic!("node annotation {s}"),
    }
}
fn gann_from(s: &str) -> GraphAnnotation {
    match s {
        "AssociativeOperation" => GraphAnnotation::AssociativeOperation,
        "OneBitState" => GraphAnnotation::OneBitState,
        "SmallState" => GraphAnnotation::SmallState,
        _ => panic!("graph annotation {s}"),
    }
}

/// Uniform call record (every field always present): k, c, gh, nh, deps, gdeps, op, nm, an, wt (supplied type), lres, lty.
fn call_json(call: &Call) -> Json {
    let mut r = json!({"k":"","c":0,"gh":[0,0],"nh":[0,0,0],"deps":[],"gdeps":[],"op":{"o":"","t":no_t(),"i":0},
                       "nm":"","an":"","wt":no_t(),"lres":"","lty":no_t()});
    match call {
        Call::Create { c } => {
            r["k"] = json!("create");
            r["c"] = json!(c);
        }
        Call::Add { gh, deps, gdeps, op, with_type } => {
            r["k"] = json!(if with_type.is_some() { "addt" } else { "add" });
            r["c"] = json!(gh.0);
            r["gh"] = gh_j(*gh);
            r["deps"] = Json::Array(deps.iter().map(|d| nh_j(*d)).collect());
            r["gdeps"] = Json::Array(gdeps.iter().map(|d| gh_j(*d)).collect());
            r["op"] = opj(op);
            if let Some(t) = with_type {
                r["wt"] = type_json(t);
            }
        }
        Call::Out { gh, nh, .. } => {
            r["k"] = json!("out");
            r["c"] = json!(gh.0);
            r["gh"] = gh_j(*gh);
            r["nh"] = nh_j(*nh);
        }
        Call::GFin { gh } => {
            r["k"] = json!("gfin");
            r["c"] = json!(gh.0);
            r["gh"] = gh_j(*gh);
        }
        Call::Main { c, gh, .. } => {
            r["k"] = json!("main");
            r["c"] = json!(c);
            r["gh"] = gh_j(*gh);
        }
        Call::CFin { c } => {
            r["k"] = json!("cfin");
            r["c"] = json!(c);
        }
        Call::GName { c, gh, nm, .. } => {
            r["k"] = json!("gname");
            r["c"] = json!(c);
            r["gh"] = gh_j(*gh);
            r["nm"] = json!(nm);
        }
        Call::NName { c, nh, nm, .. } => {
            r["k"] = json!("nname");
            r["c"] = json!(c);
            r["nh"] = nh_j(*nh);
            r["nm"] = json!(nm);
        }
        Call::GAnn { gh, an } => {
            r["k"] = json!("gann");
            r["c"] = json!(gh.0);
            r["gh"] = gh_j(*gh);
            r["an"] = json!(gann_str(an));
        }
        Call::NAnn { nh, an } => {
            r["k"] = json!("nann");
            r["c"] = json!(nh.0);
            r["nh"] = nh_j(*nh);
            r["an"] = json!(nann_str(an));
        }
    }
    r
}

fn call_from(j: &Json) -> Call {
    let c = j["c"].as_u64().unwrap() as usize;
    match j["k"].as_str().unwrap() {
        "create" => Call::Create { c },
        "add" => Call::Add {
            gh: gh_from(&j["gh"]),
            deps: j["deps"].as_array().unwrap().iter().map(nh_from).collect(),
            gdeps: j["gdeps"].as_array().unwrap().iter().map(gh_from).collect(),
            op: op_from(&j["op"]),
            with_type: None,
        },
        "out" => Call::Out { gh: gh_from(&j["gh"]), nh: nh_from(&j["nh"]), via_node: false },
        "gfin" => Call::GFin { gh: gh_from(&j["gh"]) },
        "main" => Call::Main { c, gh: gh_from(&j["gh"]), via_graph: false },
        "cfin" => Call::CFin { c },
        "gname" => Call::GName { c, gh: gh_from(&j["gh"]), nm: j["nm"].as_str().unwrap().into(), via_graph: false },
        "nname" => Call::NName { c, nh: nh_from(&j["nh"]), nm: j["nm"].as_str().unwrap().into(), via_node: false },
        "gann" => Call::GAnn { gh: gh_from(&j["gh"]), an: gann_from(j["an"].as_str().unwrap()) },
        "nann" => Call::NAnn { nh: nh_from(&j["nh"]), an: nann_from(j["an"].as_str().unwrap()) },
        k => panic!("call kind {k}"),
    }
}

fn handles_exist(w: &World, call: &Call) -> bool {
    match call {
        Call::Create { c } | Call::CFin { c } => *c < w.ctxs.len(),
        Call::Add { gh, deps, gdeps, .. } => {
            w.has_g(*gh) && deps.iter().all(|d| w.has_n(*d)) && gdeps.iter().all(|d| w.has_g(*d))
        }
        Call::Out { gh, nh, .. } => w.has_g(*gh) && w.has_n(*nh),
        Call::GFin { gh } | Call::GAnn { gh, .. } => w.has_g(*gh),
        Call::Main { c, gh, .. } | Call::GName { c, gh, .. } => *c < w.ctxs.len() && w.has_g(*gh),
        Call::NName { c, nh, .. } => *c < w.ctxs.len() && w.has_n(*nh),
        Call::NAnn { nh, .. } => w.has_n(*nh),
    }
}

/// Executes one call against the real library. Returns ("ok"|"err"|"panic", message, type of the new node).
fn apply(w: &mut World, call: &Call) -> (String, String, Json) {
    let mut lty = no_t();
    let r: std::result::Result<Result<()>, String> = match call.clone() {
        Call::Create { c } => {
            let ctx = w.ctxs[c].clone();
            match catch(AssertUnwindSafe(|| ctx.create_graph())) {
                Ok(Ok(g)) => {
                    w.graphs[c].push(g);
                    w.nodes[c].push(vec![]);
                    Ok(Ok(()))
                }
                Ok(Err(e)) => Ok(Err(e)),
                Err(p) => Err(p),
            }
        }
        Call::Add { gh, deps, gdeps, op, with_type } => {
            let g = w.g(gh);
            let nd: Vec<Node> = deps.iter().map(|d| w.n(*d)).collect();
            let gd: Vec<Graph> = gdeps.iter().map(|d| w.g(*d)).collect();
            let r = catch(AssertUnwindSafe(|| match with_type {
                None => g.add_node(nd, gd, op),
                Some(t) => g.add_node_with_type(nd, gd, op, t),
            }));
            match r {
                Ok(Ok(n)) => {
                    lty = catch(AssertUnwindSafe(|| n.get_type()))
                        .ok()
                        .and_then(|x| x.ok())
                        .map(|t| type_json(&t))
                        .unwrap_or_else(no_t);
                    w.nodes[gh.0][gh.1].push(n);
                    Ok(Ok(()))
                }
                Ok(Err(e)) => Ok(Err(e)),
                Err(p) => Err(p),
            }
        }
        Call::Out { gh, nh, via_node } => {
            let (g, n) = (w.g(gh), w.n(nh));
            catch(AssertUnwindSafe(|| if via_node { n.set_as_output().map(|_| ()) } else { g.set_output_node(n) }))
        }
        Call::GFin { gh } => {
            let g = w.g(gh);
            catch(AssertUnwindSafe(|| g.finalize().map(|_| ())))
        }
        Call::Main { c, gh, via_graph } => {
            let (ctx, g) = (w.ctxs[c].clone(), w.g(gh));
            catch(AssertUnwindSafe(|| if via_graph { g.set_as_main().map(|_| ()) } else { ctx.set_main_graph(g).map(|_| ()) }))
        }
        Call::CFin { c } => {
            let ctx = w.ctxs[c].clone();
            catch(AssertUnwindSafe(|| ctx.finalize().map(|_| ())))
        }
        Call::GName { c, gh, nm, via_graph } => {
            let (ctx, g) = (w.ctxs[c].clone(), w.g(gh));
            catch(AssertUnwindSafe(|| {
                if via_graph {
                    g.set_name(&nm).map(|_| ())
                } else {
                    ctx.set_graph_name(g, &nm).map(|_| ())
                }
            }))
        }
        Call::NName { c, nh, nm, via_node } => {
            let (ctx, n) = (w.ctxs[c].clone(), w.n(nh));
            catch(AssertUnwindSafe(|| {
                if via_node {
                    n.set_name(&nm).map(|_| ())
                } else {
                    ctx.set_node_name(n, &nm).map(|_| ())
                }
            }))
        }
        Call::GAnn { gh, an } => {
            let g = w.g(gh);
            catch(AssertUnwindSafe(|| g.add_annotation(an).map(|_| ())))
        }
        Call::NAnn { nh, an } => {
            let n = w.n(nh);
            catch(AssertUnwindSafe(|| n.add_annotation(an).map(|_| ())))
        }
    };
    match r {
        Ok(Ok(())) => ("ok".into(), String::new(), lty),
        Ok(Err(e)) => ("err".into(), format!("{e}").chars().take(120).collect(), lty),
        Err(p) => ("panic".into(), p, lty),
    }
}

// ------------------------------------------------------------------------------------- projection

fn opt_name(r: Result<Option<String>>) -> Json {
    match r {
        Ok(Some(s)) => json!([s]),
        _ => json!([]),
    }
}

/// Normalised view of the inner serialization payload (the specification's `Ser`).
fn ser_norm(inner: &Json) -> Json {
    let id_or = |j: &Json| j.as_i64().unwrap_or(-1);
    let nann = |j: &Json| -> Json {
        Json::Array(
            j.as_array()
                .map(|a| {
                    a.iter()
                        .map(|x| match serde_json::from_value::<NodeAnnotation>(x.clone()) {
                            Ok(a) => json!(nann_str(&a)),
                            Err(_) => json!("?"),
                        })
                        .collect()
                })
                .unwrap_or_default(),
        )
    };
    let gann = |j: &Json| -> Json {
        Json::Array(
            j.as_array()
                .map(|a| {
                    a.iter()
                        .map(|x| match serde_json::from_value::<GraphAnnotation>(x.clone()) {
                            Ok(a) => json!(gann_str(&a)),
                            Err(_) => json!("?"),
                        })
                        .collect()
                })
                .unwrap_or_default(),
        )
    };
    let empty = vec![];
    let graphs: Vec<Json> = inner["graphs"]
        .as_array()
        .unwrap_or(&empty)
        .iter()
        .map(|g| {
            let nodes: Vec<Json> = g["nodes"]
                .as_array()
                .unwrap_or(&empty)
                .iter()
                .map(|n| {
                    let op = match serde_json::from_value::<Operation>(n["operation"].clone()) {
                        Ok(op) => opj(&op),
                        Err(_) => json!({"o":"?","t":no_t(),"i":0}),
                    };
                    json!({"nd": n["node_dependencies"], "gd": n["graph_dependencies"], "op": op})
                })
                .collect();
            json!({"finalized": g["finalized"], "output_node": id_or(&g["output_node"]), "nodes": nodes})
        })
        .collect();
    let gn: Vec<Json> =
        inner["graphs_names"].as_array().unwrap_or(&empty).iter().map(|e| json!({"g": e[0], "nm": e[1]})).collect();
    let nn: Vec<Json> = inner["nodes_names"]
        .as_array()
        .unwrap_or(&empty)
        .iter()
        .map(|e| json!({"g": e[0][0], "n": e[0][1], "nm": e[1]}))
        .collect();
    let ga: Vec<Json> = inner["graphs_annotations"]
        .as_array()
        .unwrap_or(&empty)
        .iter()
        .map(|e| json!({"g": e[0], "an": gann(&e[1])}))
        .collect();
    let na: Vec<Json> = inner["nodes_annotations"]
        .as_array()
        .unwrap_or(&empty)
        .iter()
        .map(|e| json!({"g": e[0][0], "n": e[0][1], "an": nann(&e[1])}))
        .collect();
    json!({"finalized": inner["finalized"], "main_graph": id_or(&inner["main_graph"]), "graphs": graphs,
           "graphs_names": gn, "nodes_names": nn, "graphs_annotations": ga, "nodes_annotations": na})
}

/// (serialized text, inner payload) of a context; panics are reported as Err.
fn serialize_ctx(c: &Context) -> std::result::Result<(String, Json), String> {
    let text = catch(AssertUnwindSafe(|| serde_json::to_string(c)))?.map_err(|e| e.to_string())?;
    let outer: Json = serde_json::from_str(&text).map_err(|e| e.to_string())?;
    let inner: Json = serde_json::from_str(outer["data"].as_str().ok_or("no data")?).map_err(|e| e.to_string())?;
    Ok((text, inner))
}

/// Public projection of context `c` (index `me`) through getters only; `w` resolves handles to indices.
fn project_ctx(w: &World, c: &Context, names: &[String], inner: &Json) -> Json {
    let graphs = c.get_graphs();
    let mut gs = vec![];
    for (i, g) in graphs.iter().enumerate() {
        let by_id = c.get_graph_by_id(i as u64).map(|x| x == *g).unwrap_or(false);
        let id = if by_id && g.get_context() == *c { g.get_id() as i64 } else { -2 };
        let fin = inner["graphs"][i]["finalized"].as_bool().unwrap_or(false);
        let out = g
            .get_output_node()
            .map(|n| if n.get_graph() == *g { n.get_id() as i64 } else { -2 })
            .unwrap_or(-1);
        let name = match g.get_name() {
            Ok(s) => json!([s]),
            Err(_) => json!([]),
        };
        let ann: Vec<String> = g.get_annotations().map(|v| v.iter().map(gann_str).collect()).unwrap_or_default();
        let nodes = g.get_nodes();
        let nret: Vec<i64> = names
            .iter()
            .map(|nm| match c.retrieve_node(g.clone(), nm) {
                Ok(n) => {
                    if n.get_graph() == *g && nodes.get(n.get_id() as usize) == Some(&n) {
                        n.get_id() as i64
                    } else {
                        -2
                    }
                }
                Err(_) => -1,
            })
            .collect();
        let mut ns = vec![];
        for (k, n) in nodes.iter().enumerate() {
            let by_id = g.get_node_by_id(k as u64).map(|x| x == *n).unwrap_or(false);
            let id = if by_id && n.get_graph() == *g { n.get_id() as i64 } else { -2 };
            let deps: Vec<Json> = n
                .get_node_dependencies()
                .iter()
                .map(|d| json!([w.cidx(&d.get_graph().get_context()), d.get_graph().get_id(), d.get_id()]))
                .collect();
            let gdeps: Vec<Json> =
                n.get_graph_dependencies().iter().map(|d| json!([w.cidx(&d.get_context()), d.get_id()])).collect();
            let ty = n.get_type().map(|t| type_json(&t)).unwrap_or_else(|_| no_t());
            let ann: Vec<String> = n.get_annotations().map(|v| v.iter().map(nann_str).collect()).unwrap_or_default();
            ns.push(json!({"id": id, "op": opj(&n.get_operation()), "deps": deps, "gdeps": gdeps, "ty": ty,
                           "name": opt_name(n.get_name()), "ann": ann}));
        }
        gs.push(json!({"id": id, "fin": fin, "out": out, "nn": g.get_num_nodes(), "name": name, "ann": ann,
                       "nret": nret, "nodes": ns}));
    }
    let main = c
        .get_main_graph()
        .map(|g| if g.get_context() == *c { g.get_id() as i64 } else { -2 })
        .unwrap_or(-1);
    let gret: Vec<i64> = names
        .iter()
        .map(|nm| match c.retrieve_graph(nm) {
            Ok(g) => {
                if graphs.get(g.get_id() as usize) == Some(&g) {
                    g.get_id() as i64
                } else {
                    -2
                }
            }
            Err(_) => -1,
        })
        .collect();
    json!({"fin": c.check_finalized().is_ok(), "main": main, "ng": c.get_num_graphs(), "gret": gret, "graphs": gs})
}

/// {"pub":[ctx projections], "ser":[normalised serializations]} of the whole world.
fn project(w: &World) -> Json {
    let mut p = vec![];
    let mut s = vec![];
    for c in &w.ctxs {
        let r = catch(AssertUnwindSafe(|| {
            let (_, inner) = serialize_ctx(c)?;
            Ok::<(Json, Json), String>((project_ctx(w, c, &w.names, &inner), ser_norm(&inner)))
        }));
        match r {
            Ok(Ok((a, b))) => {
                p.push(a);
                s.push(b);
            }
            Ok(Err(e)) | Err(e) => {
                p.push(json!({"projection_failed": e}));
                s.push(json!({}));
            }
        }
    }
    json!({"pub": p, "ser": s})
}

/// counts and flags only (the per-step projection of the random driver)
fn cheap(w: &World) -> Json {
    let cs: Vec<Json> = w
        .ctxs
        .iter()
        .map(|c| {
            let gs: Vec<Json> = c
                .get_graphs()
                .iter()
                .map(|g| json!({"nn": g.get_num_nodes(), "out": g.get_output_node().map(|n| n.get_id() as i64).unwrap_or(-1)}))
                .collect();
            json!({"fin": c.check_finalized().is_ok(), "main": c.get_main_graph().map(|g| g.get_id() as i64).unwrap_or(-1),
                   "ng": c.get_num_graphs(), "graphs": gs})
        })
        .collect();
    Json::Array(cs)
}

// ------------------------------------------------------------------------------------ B1: replay

fn build(nc: usize, names: &[String], calls: &[Call], path: &[usize]) -> World {
    let mut w = World::new(nc, names);
    for i in path {
        apply(&mut w, &calls[*i - 1]);
    }
    w
}

/// For every TLC-generated path (one per distinct state of the model): rebuild the state with the real
/// API, record its projection, then try EVERY call of the model's call table whose handles exist and
/// record result class and projection (unchanged / new).  Calls are 1-based indices into the table.
fn cmd_replay(args: &[String]) {
    let cfg: Json = serde_json::from_str(&std::fs::read_to_string(&args[0]).unwrap()).unwrap();
    let names: Vec<String> = cfg["names"].as_array().unwrap().iter().map(|x| x.as_str().unwrap().to_string()).collect();
    struct Feat {
        nc: usize,
        calls: Vec<Call>,
        maxg: Vec<usize>,
        maxn: Vec<usize>,
        maxann: usize,
    }
    let us = |j: &Json| -> Vec<usize> { j.as_array().unwrap().iter().map(|x| x.as_u64().unwrap() as usize).collect() };
    let feats: Vec<Feat> = cfg["feats"]
        .as_array()
        .unwrap()
        .iter()
        .map(|f| Feat {
            nc: f["nc"].as_u64().unwrap() as usize,
            calls: f["calls"].as_array().unwrap().iter().map(call_from).collect(),
            maxg: us(&f["maxg"]),
            maxn: us(&f["maxn"]),
            maxann: f["maxann"].as_u64().unwrap() as usize,
        })
        .collect();
    // the bounds of the model (an object that reached its bound is not grown further)
    let within = |ft: &Feat, w: &World, call: &Call| -> bool {
        match call {
            Call::Create { c } => w.graphs[*c].len() < ft.maxg[*c],
            Call::Add { gh, .. } => w.nodes[gh.0][gh.1].len() < ft.maxn[gh.0],
            Call::GAnn { gh, .. } => w.g(*gh).get_annotations().map(|a| a.len()).unwrap_or(0) < ft.maxann,
            Call::NAnn { nh, .. } => w.n(*nh).get_annotations().map(|a| a.len()).unwrap_or(0) < ft.maxann,
            _ => true,
        }
    };
    let paths = read_ndjson(&args[1]);
    let mut out = std::io::BufWriter::new(std::fs::File::create(&args[2]).unwrap());
    let mut ser_out = match args.get(3).map(|s| s.as_str()) {
        Some("-") | None => None,
        Some(p) => Some(std::io::BufWriter::new(std::fs::File::create(p).unwrap())),
    };
    // optional shard "k/n": this process handles the paths with index % n == k
    let (sk, sn) = match args.get(4) {
        Some(s) => {
            let v: Vec<usize> = s.split('/').map(|x| x.parse().unwrap()).collect();
            (v[0], v[1])
        }
        None => (0, 1),
    };
    let (mut tried, mut n_ok, mut n_err, mut n_bad, mut n_states) = (0u64, 0u64, 0u64, 0u64, 0u64);
    let mut by_kind: std::collections::BTreeMap<String, u64> = Default::default();
    for (pi, pj) in paths.iter().enumerate() {
        if pi % sn != sk {
            continue;
        }
        n_states += 1;
        let fi = pj["f"].as_u64().unwrap() as usize;
        let ft = &feats[fi - 1];
        let path: Vec<usize> = pj["path"].as_array().unwrap().iter().map(|x| x.as_u64().unwrap() as usize).collect();
        let mut w = build(ft.nc, &names, &ft.calls, &path);
        let p0 = project(&w);
        let p0s = p0.to_string();
        if let Some(so) = ser_out.as_mut() {
            // serializations of the reached contexts (bases of the C12 round-trip / corruption cases)
            for c in &w.ctxs {
                if let Ok((text, _)) = serialize_ctx(c) {
                    writeln!(so, "{}", json!({"src": format!("c11:{fi}:{pi}"), "text": text})).unwrap();
                }
            }
        }
        let (mut errs, mut oks, mut bad) = (vec![], vec![], vec![]);
        for (ci, call) in ft.calls.iter().enumerate() {
            if !handles_exist(&w, call) || !within(ft, &w, call) {
                continue;
            }
            tried += 1;
            let (res, msg, _) = apply(&mut w, call);
            *by_kind.entry(format!("{}:{}", call_json(call)["k"].as_str().unwrap(), res)).or_default() += 1;
            let p1 = project(&w);
            let same = p1.to_string() == p0s;
            if res == "err" && same {
                errs.push(ci + 1);
                n_err += 1;
            } else if res == "ok" {
                oks.push(json!({"i": ci + 1, "proj": p1}));
                n_ok += 1;
                w = build(ft.nc, &names, &ft.calls, &path);
            } else {
                bad.push(json!({"i": ci + 1, "res": res, "msg": msg, "proj": p1}));
                n_bad += 1;
                w = build(ft.nc, &names, &ft.calls, &path);
            }
        }
        writeln!(out, "{}", json!({"f": fi, "path": path, "proj": p0, "errs": errs, "oks": oks, "bad": bad})).unwrap();
    }
    println!("{}", json!({"states": n_states, "tried": tried, "ok": n_ok, "err": n_err, "bad": n_bad, "by_kind": by_kind}));
}

// ------------------------------------------------------------------------------- B2: random driver

fn t_bit() -> Type {
    scalar_type(BIT)
}
fn t_i32() -> Type {
    scalar_type(INT32)
}
/// a node whose own size estimate overflows u64 ("Trying to add a node with invalid size")
fn t_big() -> Type {
    array_type(vec![1 << 30, 1 << 30, 8], INT64)
}
/// 2^63+64 bits: one such input fits, the second overflows the context's size counter
fn t_huge() -> Type {
    array_type(vec![1 << 30, 1 << 27], INT64)
}
fn t_bad() -> Type {
    array_type(vec![], INT32)
}

fn random_type(rng: &mut StdRng) -> Type {
    match rng.gen_range(0..100) {
        0..=24 => t_i32(),
        25..=44 => t_bit(),
        45..=54 => array_type(vec![2], INT32),
        55..=62 => array_type(vec![2, 3], INT32),
        63..=68 => array_type(vec![3], INT32),
        69..=74 => array_type(vec![2], BIT),
        75..=79 => array_type(vec![1, 3], BIT),
        80..=85 => tuple_type(vec![t_i32(), t_bit()]),
        86..=88 => tuple_type(vec![]),
        89..=90 => vector_type(2, t_i32()),
        91..=92 => named_tuple_type(vec![("x".into(), t_i32()), ("y".into(), t_bit())]),
        93 => t_bad(),
        // a repeated field name that is NOT adjacent to its first occurrence (round-3 change C11_F: dedup without sort)
        94 => match rng.gen_range(0..3) {
            0 => named_tuple_type(vec![("a".into(), t_i32()), ("b".into(), t_bit()), ("a".into(), t_i32())]),
            1 => named_tuple_type(vec![("x".into(), t_i32()), ("x".into(), t_bit())]),
            _ => vector_type(2, named_tuple_type(vec![("k".into(), t_bit()), ("v".into(), t_i32()), ("w".into(), t_i32()), ("k".into(), t_bit())])),
        },
        95..=96 => t_big(),
        97..=98 => t_huge(),
        _ => array_type(vec![2, 0], BIT),
    }
}

fn random_valid_small(rng: &mut StdRng) -> Type {
    match rng.gen_range(0..4) {
        0 => t_i32(),
        1 => t_bit(),
        2 => array_type(vec![2], INT32),
        _ => tuple_type(vec![t_i32(), t_bit()]),
    }
}

fn random_constant(rng: &mut StdRng) -> Operation {
    match rng.gen_range(0..5) {
        0 => Operation::Constant(t_i32(), Value::from_scalar(rng.gen_range(-5..5), INT32).unwrap()),
        1 => Operation::Constant(t_bit(), Value::from_scalar(1, BIT).unwrap()),
        2 => Operation::Constant(
            scalar_type(UINT128),
            Value::from_flattened_array(&[u128::MAX - rng.gen_range(0..9) as u128], UINT128).unwrap(),
        ),
        3 => Operation::Constant(
            array_type(vec![2], INT128),
            Value::from_flattened_array(&[1u128 << 100, (i128::MIN + 3) as u128], INT128).unwrap(),
        ),
        // value that does not match the type: rejected by type inference
        _ => Operation::Constant(array_type(vec![3], INT32), Value::from_scalar(1, BIT).unwrap()),
    }
}

struct Driver {
    rng: StdRng,
    w: World,
    finalized: std::collections::HashSet<GH>,
}

impl Driver {
    fn pick_gh(&mut self, prefer_c: usize) -> Option<GH> {
        let c = if self.rng.gen_range(0..10) < 8 { prefer_c } else { self.rng.gen_range(0..self.w.ctxs.len()) };
        let n = self.w.graphs[c].len();
        if n == 0 {
            return None;
        }
        // prefer recent graphs
        let g = if self.rng.gen_bool(0.6) { n - 1 } else { self.rng.gen_range(0..n) };
        Some((c, g))
    }
    fn pick_nh_in(&mut self, gh: GH) -> Option<NH> {
        let n = self.w.nodes[gh.0][gh.1].len();
        if n == 0 {
            None
        } else {
            Some((gh.0, gh.1, self.rng.gen_range(0..n)))
        }
    }
    /// a node handle: mostly from `gh`, sometimes from another graph / context
    fn pick_dep(&mut self, gh: GH) -> Option<NH> {
        if self.rng.gen_range(0..100) < 92 {
            self.pick_nh_in(gh)
        } else {
            let c = self.rng.gen_range(0..self.w.ctxs.len());
            let o = self.pick_gh(c)?;
            self.pick_nh_in(o)
        }
    }
    fn node_type(&self, nh: NH) -> Option<Type> {
        self.w.n(nh).get_type().ok()
    }
    fn find_typed(&mut self, gh: GH, t: &Type) -> Option<NH> {
        let n = self.w.nodes[gh.0][gh.1].len();
        let c: Vec<usize> = (0..n).filter(|i| self.node_type((gh.0, gh.1, *i)).as_ref() == Some(t)).collect();
        if c.is_empty() {
            None
        } else {
            Some((gh.0, gh.1, c[self.rng.gen_range(0..c.len())]))
        }
    }
    fn callee_inputs(&self, gh: GH) -> Vec<Type> {
        self.w
            .g(gh)
            .get_nodes()
            .iter()
            .filter_map(|n| if let Operation::Input(t) = n.get_operation() { Some(t) } else { None })
            .collect()
    }

    fn random_add(&mut self, gh: GH) -> Call {
        let r = self.rng.gen_range(0..100);
        let two = |d: &mut Driver| -> Vec<NH> { (0..2).filter_map(|_| d.pick_dep(gh)).collect() };
        let one = |d: &mut Driver| -> Vec<NH> { (0..1).filter_map(|_| d.pick_dep(gh)).collect() };
        let (op, deps, gdeps): (Operation, Vec<NH>, Vec<GH>) = match r {
            0..=27 => (Operation::Input(random_type(&mut self.rng)), vec![], vec![]),
            28..=37 => (Operation::Add, two(self), vec![]),
            38..=43 => (Operation::Subtract, two(self), vec![]),
            44..=49 => (Operation::Multiply, two(self), vec![]),
            50..=57 => {
                let k = self.rng.gen_range(0..4);
                (Operation::CreateTuple, (0..k).filter_map(|_| self.pick_dep(gh)).collect(), vec![])
            }
            58..=65 => {
                // prefer a tuple-typed argument
                let n = self.w.nodes[gh.0][gh.1].len();
                let tup: Vec<usize> =
                    (0..n).filter(|i| matches!(self.node_type((gh.0, gh.1, *i)), Some(Type::Tuple(_)))).collect();
                let d = if !tup.is_empty() && self.rng.gen_bool(0.8) {
                    vec![(gh.0, gh.1, tup[self.rng.gen_range(0..tup.len())])]
                } else {
                    one(self)
                };
                (Operation::TupleGet(self.rng.gen_range(0..4)), d, vec![])
            }
            66..=79 => {
                // Call / Iterate: mostly a finalized older graph of the same context with matching arguments
                let callee = if self.rng.gen_range(0..10) < 8 && gh.1 > 0 {
                    Some((gh.0, self.rng.gen_range(0..gh.1)))
                } else {
                    self.pick_gh(gh.0)
                };
                match callee {
                    None => (Operation::Call, vec![], vec![]),
                    Some(cg) => {
                        let ins = self.callee_inputs(cg);
                        let mut deps = vec![];
                        for t in &ins {
                            let d = if self.rng.gen_range(0..10) < 8 { self.find_typed(gh, t) } else { None };
                            if let Some(d) = d.or_else(|| self.pick_dep(gh)) {
                                deps.push(d);
                            }
                        }
                        if self.rng.gen_range(0..10) == 0 {
                            deps.pop();
                        }
                        let op = if self.rng.gen_range(0..4) == 0 { Operation::Iterate } else { Operation::Call };
                        let gdeps = if self.rng.gen_range(0..15) == 0 { vec![] } else { vec![cg] };
                        (op, deps, gdeps)
                    }
                }
            }
            80..=86 => (random_constant(&mut self.rng), vec![], vec![]),
            87..=88 => (Operation::Zeros(random_type(&mut self.rng)), vec![], vec![]),
            89..=90 => (Operation::Ones(random_type(&mut self.rng)), vec![], vec![]),
            91 => (Operation::A2B, one(self), vec![]),
            92 => (Operation::B2A(INT32), one(self), vec![]),
            93 => (Operation::Sum(vec![0]), one(self), vec![]),
            94 => (Operation::MixedMultiply, two(self), vec![]),
            95 => (Operation::NOP, one(self), vec![]),
            96 => (Operation::Repeat(2), one(self), vec![]),
            97 => (Operation::Random(random_type(&mut self.rng)), vec![], vec![]),
            98 => (Operation::Dot, two(self), vec![]),
            _ => {
                let k = self.rng.gen_range(0..3);
                (Operation::Stack(vec![k.max(1) as u64]), (0..k).filter_map(|_| self.pick_dep(gh)).collect(), vec![])
            }
        };
        Call::Add { gh, deps, gdeps, op, with_type: None }
    }

    fn random_call(&mut self, with_addt: bool, bad_type: bool) -> Call {
        let nc = self.w.ctxs.len();
        let c = if self.rng.gen_range(0..10) < 8 { 0 } else { self.rng.gen_range(0..nc) };
        let nm = self.w.names[self.rng.gen_range(0..self.w.names.len())].clone();
        // "progress" moves: drive the oldest unfinished graph (and finally the context) towards
        // finalization so that calls between graphs and calls after finalization occur
        if self.rng.gen_range(0..100) < 14 {
            let open = (0..self.w.graphs[c].len()).find(|g| self.w.graphs[c][*g].get_output_node().is_err() || {
                // finalized-ness is not public: a graph whose finalize() has not been requested yet is tracked here
                !self.finalized.contains(&(c, *g))
            });
            match open {
                Some(g) => {
                    let gh = (c, g);
                    if self.w.nodes[c][g].is_empty() {
                        return Call::Add { gh, deps: vec![], gdeps: vec![], op: Operation::Input(random_valid_small(&mut self.rng)), with_type: None };
                    } else if self.w.graphs[c][g].get_output_node().is_err() {
                        let n = self.w.nodes[c][g].len() - 1;
                        return Call::Out { gh, nh: (c, g, n), via_node: true };
                    } else {
                        self.finalized.insert(gh);
                        return Call::GFin { gh };
                    }
                }
                None => {
                    if !self.w.graphs[c].is_empty() && self.rng.gen_bool(0.5) {
                        if self.w.ctxs[c].get_main_graph().is_err() {
                            let g = self.rng.gen_range(0..self.w.graphs[c].len());
                            return Call::Main { c, gh: (c, g), via_graph: true };
                        } else if self.rng.gen_bool(0.3) {
                            return Call::CFin { c };
                        }
                    }
                }
            }
        }
        loop {
            let r = self.rng.gen_range(0..100);
            let gh = self.pick_gh(c);
            match r {
                0..=5 => return Call::Create { c },
                6..=55 => {
                    if let Some(gh) = gh {
                        let call = self.random_add(gh);
                        if with_addt && self.rng.gen_range(0..25) == 0 {
                            if let Call::Add { gh, deps, gdeps, op, .. } = call.clone() {
                                // the documented-hidden variant with a supplied type: the type the library
                                // would infer, or (rarely) an invalid type
                                let t = if bad_type && self.rng.gen_range(0..3) == 0 { t_bad() } else { random_valid_small(&mut self.rng) };
                                return Call::Add { gh, deps, gdeps, op, with_type: Some(t) };
                            }
                        }
                        return call;
                    }
                }
                56..=62 => {
                    if let Some(gh) = gh {
                        let n = if self.rng.gen_range(0..10) < 9 { self.pick_nh_in(gh) } else { self.pick_dep(gh) };
                        if let Some(nh) = n {
                            let via_node = (nh.0, nh.1) == gh && self.rng.gen_bool(0.5);
                            return Call::Out { gh, nh, via_node };
                        }
                    }
                }
                63..=68 => {
                    if let Some(gh) = gh {
                        return Call::GFin { gh };
                    }
                }
                69..=71 => {
                    if let Some(gh) = gh {
                        return Call::Main { c, gh, via_graph: gh.0 == c && self.rng.gen_bool(0.5) };
                    }
                }
                72 => return Call::CFin { c },
                73..=78 => {
                    if let Some(gh) = gh {
                        return Call::GName { c, gh, nm, via_graph: gh.0 == c && self.rng.gen_bool(0.5) };
                    }
                }
                79..=88 => {
                    if let Some(gh) = gh {
                        if let Some(nh) = self.pick_dep(gh) {
                            return Call::NName { c, nh, nm, via_node: nh.0 == c && self.rng.gen_bool(0.5) };
                        }
                    }
                }
                89..=92 => {
                    if let Some(gh) = gh {
                        let an = [GraphAnnotation::AssociativeOperation, GraphAnnotation::OneBitState, GraphAnnotation::SmallState]
                            [self.rng.gen_range(0..3)]
                        .clone();
                        return Call::GAnn { gh, an };
                    }
                }
                _ => {
                    if let Some(gh) = gh {
                        if let Some(nh) = self.pick_dep(gh) {
                            let an = match self.rng.gen_range(0..7) {
                                0 => NodeAnnotation::AssociativeOperation,
                                1 => NodeAnnotation::Private,
                                2 => NodeAnnotation::Send(self.rng.gen_range(0..3), self.rng.gen_range(0..3)),
                                3 => NodeAnnotation::PRFMultiplication,
                                4 => NodeAnnotation::PRFB2A,
                                5 => NodeAnnotation::PRFTruncate,
                                _ => NodeAnnotation::MpcCall,
                            };
                            return Call::NAnn { nh, an };
                        }
                    }
                }
            }
        }
    }
}

/// random histories over the real operation set; one ndjson record per call
fn cmd_random(args: &[String]) {
    let seed: u64 = args[0].parse().unwrap();
    let nh: usize = args[1].parse().unwrap();
    let mut out = std::io::BufWriter::new(std::fs::File::create(&args[2]).unwrap());
    let minlen: usize = args.get(3).map(|s| s.parse().unwrap()).unwrap_or(50);
    let maxlen: usize = args.get(4).map(|s| s.parse().unwrap()).unwrap_or(400);
    let with_addt = std::env::var("CTXAPI_ADDT").map(|v| v != "0").unwrap_or(true);
    // CTXAPI_ADDT_BAD=0 leaves out add_node_with_type with an INVALID supplied type
    let addt_bad = std::env::var("CTXAPI_ADDT_BAD").map(|v| v != "0").unwrap_or(true);
    let names: Vec<String> = ["a", "b", "c"].iter().map(|s| s.to_string()).collect();
    let mut total = 0u64;
    for h in 0..nh {
        let mut rng = StdRng::seed_from_u64(seed.wrapping_mul(1000003).wrapping_add(h as u64));
        let nc = if h % 3 == 0 { 1 } else { 2 };
        let len = rng.gen_range(minlen..=maxlen);
        let mut d = Driver { rng, w: World::new(nc, &names), finalized: Default::default() };
        // the second context gets a small finalized graph first so that foreign handles exist
        let p0 = project(&d.w);
        let mut prev = p0.to_string();
        writeln!(out, "{}", json!({"ev":"start","h":h,"nc":nc,"names":names,"seq":0,"full":p0})).unwrap();
        for seq in 1..=len {
            let call = if nc == 2 && seq <= 4 {
                // foreign material first: context 1 gets a graph with an input, output, finalized
                match seq {
                    1 => Call::Create { c: 1 },
                    2 => Call::Add { gh: (1, 0), deps: vec![], gdeps: vec![], op: Operation::Input(t_i32()), with_type: None },
                    3 => Call::Out { gh: (1, 0), nh: (1, 0, 0), via_node: true },
                    _ => Call::GFin { gh: (1, 0) },
                }
            } else {
                // an invalid SUPPLIED type (add_node_with_type) is only tried in every 8th history
                d.random_call(with_addt, addt_bad && h % 8 == 5)
            };
            let mut cj = call_json(&call);
            let (res, msg, lty) = apply(&mut d.w, &call);
            cj["lres"] = json!(res);
            cj["lty"] = lty;
            let full = project(&d.w);
            let fs = full.to_string();
            let same = fs == prev;
            let small = fs.len() < 1500;
            let has_full = small || seq % 16 == 0 || seq == len || (res != "ok" && !same);
            let mut rec = json!({"ev":"call","h":h,"seq":seq,"call":cj,"res":res,"same":same,"cheap":cheap(&d.w),"hasfull":has_full});
            if has_full {
                rec["full"] = full;
            }
            if res == "panic" {
                rec["msg"] = json!(msg);
            }
            writeln!(out, "{}", rec).unwrap();
            prev = fs;
            total += 1;
        }
    }
    println!("{}", json!({"histories": nh, "calls": total}));
}

// ------------------------------------------------------------------------------------------- C12

/// Independent decoder of the serialization format (mirror of the private SerializableContextBody):
/// decides whether a payload has the shape of a serialized context.
#[allow(dead_code)]
#[derive(serde::Deserialize)]
struct SNode {
    node_dependencies: Vec<u64>,
    graph_dependencies: Vec<u64>,
    operation: Operation,
}
#[allow(dead_code)]
#[derive(serde::Deserialize)]
struct SGraph {
    finalized: bool,
    nodes: Vec<SNode>,
    output_node: Option<u64>,
}
#[allow(dead_code)]
#[derive(serde::Deserialize)]
struct SCtx {
    finalized: bool,
    graphs: Vec<SGraph>,
    main_graph: Option<u64>,
    graphs_names: Vec<(u64, String)>,
    nodes_names: Vec<((u64, u64), String)>,
    nodes_annotations: Vec<((u64, u64), Vec<NodeAnnotation>)>,
    graphs_annotations: Vec<(u64, Vec<GraphAnnotation>)>,
}
#[derive(serde::Deserialize)]
struct SEnv {
    version: u64,
    data: String,
}

const UNIVERSE: [&str; 4] = ["a", "b", "c", "d"];

fn clamp_ids(j: &mut Json) {
    match j {
        Json::Number(n) => {
            if let Some(u) = n.as_u64() {
                if u > 1_000_000 {
                    *j = json!(1_000_000);
                }
            } else if n.as_i64().is_none() {
                *j = json!(1_000_000);
            }
        }
        Json::Array(a) => a.iter_mut().for_each(clamp_ids),
        // (operation parameters such as array shapes are not ids)
        Json::Object(o) => o.iter_mut().filter(|(k, _)| k.as_str() != "op").for_each(|(_, v)| clamp_ids(v)),
        _ => {}
    }
}

/// array dimensions the specification can weigh: small ones, or exactly the two designated huge types
/// (TLC integers are 32 bit; sizes are abstracted to weights, see ContextAPI.tla)
fn dims_ok(t: &Json) -> bool {
    match t["k"].as_str().unwrap_or("") {
        "a" => {
            let sh: Vec<u64> = t["sh"].as_array().map(|a| a.iter().map(|x| x.as_u64().unwrap_or(u64::MAX)).collect()).unwrap_or_default();
            sh.iter().all(|d| *d <= (1 << 20)) || (t["st"] == "i64" && (sh == vec![1 << 30, 1 << 30, 8] || sh == vec![1 << 30, 1 << 27]))
        }
        "t" | "n" => t["el"].as_array().map_or(true, |a| a.iter().all(dims_ok)),
        "v" => t["n"].as_u64().map_or(false, |n| n <= (1 << 20)) && dims_ok(&t["of"]),
        _ => true,
    }
}

fn clamp_dims(t: &mut Json) {
    match t {
        Json::Number(n) => {
            if n.as_u64().map_or(true, |u| u > i32::MAX as u64) && n.as_i64().map_or(true, |i| i > i32::MAX as i64 || i < i32::MIN as i64) {
                *t = json!(i32::MAX);
            }
        }
        Json::Array(a) => a.iter_mut().for_each(clamp_dims),
        Json::Object(o) => o.values_mut().for_each(clamp_dims),
        _ => {}
    }
}

/// all ops modelled by the specification and all names inside the probe universe
fn spec_can_predict(ser: &Json) -> bool {
    let dims = ser["graphs"].as_array().map_or(true, |gs| {
        gs.iter().all(|g| g["nodes"].as_array().map_or(true, |ns| ns.iter().all(|n| dims_ok(&n["op"]["t"]))))
    });
    if !dims {
        return false;
    }
    let modelled = ["Input", "Add", "Subtract", "Multiply", "CreateTuple", "TupleGet", "Call"];
    let ops_ok = ser["graphs"].as_array().map_or(true, |gs| {
        gs.iter().all(|g| g["nodes"].as_array().map_or(true, |ns| ns.iter().all(|n| modelled.contains(&n["op"]["o"].as_str().unwrap_or("")))))
    });
    let names_ok = ["graphs_names", "nodes_names"].iter().all(|t| {
        ser[*t].as_array().map_or(true, |es| es.iter().all(|e| UNIVERSE.contains(&e["nm"].as_str().unwrap_or(""))))
    });
    let ann_ok = ser["graphs_annotations"].as_array().map_or(true, |es| es.iter().all(|e| e["an"].as_array().map_or(true, |a| a.iter().all(|x| x != "?"))))
        && ser["nodes_annotations"].as_array().map_or(true, |es| es.iter().all(|e| e["an"].as_array().map_or(true, |a| a.iter().all(|x| x != "?"))));
    ops_ok && names_ok && ann_ok
}

/// What a text is, decided WITHOUT the library's Context decoder: envelope ok?, version, payload shape ok?,
/// normalised serial form of the payload.
fn classify_text(text: &str) -> Json {
    let env: Option<SEnv> = serde_json::from_str(text).ok();
    match env {
        None => json!({"env_ok": false, "version": 0, "shape_ok": false, "cser": {}, "predictable": true}),
        Some(e) => {
            let shape: std::result::Result<SCtx, _> = catch(AssertUnwindSafe(|| serde_json::from_str::<SCtx>(&e.data))).unwrap_or_else(|_| {
                // a panic inside the library's Operation/Value decoder: the payload is not decodable
                serde_json::from_str::<SCtx>("0")
            });
            let version = e.version.min(1000);
            match (shape, serde_json::from_str::<Json>(&e.data)) {
                (Ok(_), Ok(inner)) => {
                    let mut cser = ser_norm(&inner);
                    clamp_ids(&mut cser);
                    let p = spec_can_predict(&cser);
                    clamp_dims(&mut cser);
                    json!({"env_ok": true, "version": version, "shape_ok": true, "cser": cser, "predictable": p})
                }
                _ => json!({"env_ok": true, "version": version, "shape_ok": false, "cser": {}, "predictable": true}),
            }
        }
    }
}

fn names_for(ctx_names: &[String]) -> Vec<String> {
    let mut v: Vec<String> = UNIVERSE.iter().map(|s| s.to_string()).collect();
    for n in ctx_names {
        if !v.contains(n) {
            v.push(n.clone());
        }
    }
    v
}

fn names_in(inner: &Json) -> Vec<String> {
    let mut v = vec![];
    for t in ["graphs_names", "nodes_names"] {
        if let Some(a) = inner[t].as_array() {
            for e in a {
                if let Some(s) = e[1].as_str() {
                    v.push(s.to_string());
                }
            }
        }
    }
    v
}

/// projection + normalised serialization of a single context (as context 0 of a one-context world)
fn project_single(c: &Context) -> std::result::Result<(Json, Json, Vec<String>, String), String> {
    let (text, inner) = serialize_ctx(c)?;
    let names = names_for(&names_in(&inner));
    let w = World { ctxs: vec![c.clone()], graphs: vec![vec![]], nodes: vec![vec![]], names: names.clone() };
    let r = catch(AssertUnwindSafe(|| project_ctx(&w, c, &names, &inner)))?;
    Ok((r, ser_norm(&inner), names, text))
}

/// from_str::<Context> with panics caught: (outcome, message, context)
fn deserialize(text: &str) -> (String, String, Option<Context>) {
    match catch(AssertUnwindSafe(|| serde_json::from_str::<Context>(text))) {
        Ok(Ok(c)) => ("ok".into(), String::new(), Some(c)),
        Ok(Err(e)) => ("err".into(), e.to_string().chars().take(160).collect(), None),
        Err(p) => {
            let loc = LAST_PANIC_LOC.lock().map(|g| g.clone()).unwrap_or_default();
            ("panic".into(), format!("{loc} {}", p.chars().take(160).collect::<String>()), None)
        }
    }
}

fn eval_main(c: &Context) -> std::result::Result<Option<Vec<u8>>, String> {
    if c.check_finalized().is_err() {
        return Ok(None);
    }
    let r = catch(AssertUnwindSafe(|| -> Result<Option<Vec<u8>>> {
        let has_custom = c.get_graphs().iter().any(|g| g.get_nodes().iter().any(|n| matches!(n.get_operation(), Operation::Custom(_))));
        let cc = if has_custom { ciphercore_base::custom_ops::run_instantiation_pass(c.clone())?.get_context() } else { c.clone() };
        let g = cc.get_main_graph()?;
        // contexts with enormous node types (the size-limit cases) are not evaluated
        fn big(t: &Type) -> bool {
            match t {
                Type::Scalar(_) => false,
                Type::Array(sh, _) => sh.iter().fold(1u128, |a, b| a.saturating_mul(*b as u128)) > (1 << 16),
                Type::Vector(n, e) => *n > (1 << 12) || big(e),
                Type::Tuple(v) => v.iter().any(|x| big(x)),
                Type::NamedTuple(v) => v.iter().any(|x| big(&x.1)),
            }
        }
        for gr in cc.get_graphs() {
            for n in gr.get_nodes() {
                if n.get_type().map(|t| big(&t)).unwrap_or(true) {
                    return Ok(None);
                }
            }
        }
        let ins = cc_conform::compile::zero_inputs(&g)?;
        let v = ciphercore_base::evaluators::evaluate_simple_evaluator(g.clone(), ins, Some([7u8; 16]))?;
        let t = g.get_output_node()?.get_type()?;
        Ok(Some(serde_json::to_vec(&cc_conform::export::value_json(&v, &t, cc_conform::export::Num::Str)?).unwrap()))
    }));
    match r {
        Ok(Ok(x)) => Ok(x),
        Ok(Err(e)) => Err(format!("{e}").chars().take(120).collect()),
        Err(p) => Err(format!("panic: {p}")),
    }
}

/// the record of one base context: serialization, projection, and the round trip observed on the code
fn base_record(id: usize, src: &str, c: &Context, catalogue: bool, with_pub: bool) -> Json {
    let (pubp, ser, names, text) = match project_single(c) {
        Ok(x) => x,
        Err(e) => return json!({"id": id, "src": src, "failed": e}),
    };
    let text2 = serde_json::to_string(c).unwrap_or_default();
    let (out, msg, c2) = deserialize(&text);
    let mut rt = json!({"out": out, "msg": msg, "deep_equal": false, "same_text": false, "text_stable": text == text2,
                        "eval": "skipped", "pub_equal": false, "ser_equal": false});
    let mut pub1 = json!({});
    if let Some(c2) = &c2 {
        rt["deep_equal"] = json!(catch(AssertUnwindSafe(|| contexts_deep_equal(c, c2))).unwrap_or(false));
        rt["same_text"] = json!(serde_json::to_string(c2).map(|t| t == text).unwrap_or(false));
        if let Ok((p1, s1, _, _)) = project_single(c2) {
            rt["pub_equal"] = json!(p1 == pubp);
            rt["ser_equal"] = json!(s1 == ser);
            pub1 = p1;
        }
        rt["eval"] = json!(match (eval_main(c), eval_main(c2)) {
            (Ok(None), Ok(None)) => "skipped",
            (Ok(a), Ok(b)) => if a == b { "equal" } else { "differs" },
            (Err(_), Err(_)) => "both-error",
            _ => "differs",
        });
    }
    let nodes: usize = c.get_graphs().iter().map(|g| g.get_num_nodes() as usize).sum();
    let predictable = spec_can_predict(&ser) && names.len() == UNIVERSE.len();
    let mut r = json!({"id": id, "src": src, "text": text, "names": names, "nodes": nodes, "rt": rt,
                       "catalogue": catalogue && predictable, "haspub": with_pub});
    // (big contexts: the projections are compared by the harness' recorded flags only)
    r["ser"] = if with_pub { ser } else { json!({}) };
    r["pub"] = if with_pub { pubp } else { json!({}) };
    r["pub1"] = if with_pub { pub1 } else { json!({}) };
    r
}

fn rich_contexts(seed: u64) -> Vec<(String, Context)> {
    let mut v: Vec<(String, Context)> = vec![];
    let mut add = |name: &str, f: &dyn Fn() -> Result<Context>| match catch(AssertUnwindSafe(f)) {
        Ok(Ok(c)) => v.push((name.to_string(), c)),
        Ok(Err(e)) => eprintln!("rich context {name}: {e}"),
        Err(p) => eprintln!("rich context {name}: panic {p}"),
    };
    // every annotation kind, names, calls; modelled operations only (catalogue applies)
    add("annotations-all-kinds", &|| {
        let c = create_context()?;
        let g0 = c.create_graph()?;
        let a = g0.input(t_i32())?;
        let b = g0.input(t_i32())?;
        let s = a.add(b.clone())?;
        s.set_as_output()?;
        a.set_name("a")?;
        b.set_name("b")?;
        for an in [NodeAnnotation::AssociativeOperation, NodeAnnotation::Private, NodeAnnotation::Send(0, 2), NodeAnnotation::PRFMultiplication,
                   NodeAnnotation::PRFB2A, NodeAnnotation::PRFTruncate, NodeAnnotation::MpcCall] {
            s.add_annotation(an)?;
        }
        a.add_annotation(NodeAnnotation::Send(1, 2))?;
        for an in [GraphAnnotation::AssociativeOperation, GraphAnnotation::OneBitState, GraphAnnotation::SmallState] {
            g0.add_annotation(an)?;
        }
        g0.finalize()?;
        g0.set_name("c")?;
        let g1 = c.create_graph()?;
        let x = g1.input(t_i32())?;
        let y = g1.input(t_i32())?;
        let z = g1.call(g0.clone(), vec![x.clone(), y])?;
        let t = g1.create_tuple(vec![z, x])?;
        let u = t.tuple_get(0)?;
        u.set_name("a")?;
        u.set_as_output()?;
        g1.finalize()?;
        g1.set_name("d")?;
        g1.set_as_main()?;
        c.finalize()?;
        Ok(c)
    });
    add("unfinalized-with-names", &|| {
        let c = create_context()?;
        let g0 = c.create_graph()?;
        let a = g0.input(array_type(vec![2, 3], INT32))?;
        let b = g0.input(array_type(vec![3], INT32))?;
        a.multiply(b)?.set_name("b")?;
        g0.set_name("a")?;
        let _g1 = c.create_graph()?;
        Ok(c)
    });
    // constants incl. 128-bit, structural operations (not modelled by the specification: round trip + bytes only)
    add("constants-128bit", &|| {
        let c = create_context()?;
        let g = c.create_graph()?;
        let k1 = g.constant(scalar_type(UINT128), Value::from_flattened_array(&[u128::MAX - 5], UINT128)?)?;
        let k2 = g.constant(array_type(vec![2], INT128), Value::from_flattened_array(&[1u128 << 100, (i128::MIN + 3) as u128], INT128)?)?;
        let k3 = g.constant(scalar_type(UINT128), Value::from_flattened_array(&[(1u128 << 64) + 5], UINT128)?)?;
        let s = k1.add(k3)?;
        let i = g.input(array_type(vec![2], INT128))?;
        let m = i.multiply(k2)?;
        let k4 = g.constant(t_bit(), Value::from_scalar(1, BIT)?)?;
        g.create_tuple(vec![s, m, k4])?.set_as_output()?;
        g.finalize()?.set_as_main()?;
        c.finalize()?;
        Ok(c)
    });
    add("custom-ops-comparisons", &|| {
        use ciphercore_base::ops::comparisons::*;
        let c = create_context()?;
        let g = c.create_graph()?;
        let t = array_type(vec![2, 8], BIT);
        let a = g.input(t.clone())?;
        let b = g.input(t)?;
        let r1 = g.custom_op(CustomOperation::new(GreaterThan { signed_comparison: false }), vec![a.clone(), b.clone()])?;
        let r2 = g.custom_op(CustomOperation::new(LessThan { signed_comparison: true }), vec![a.clone(), b.clone()])?;
        let r3 = g.custom_op(CustomOperation::new(Equal {}), vec![a.clone(), b.clone()])?;
        let r4 = g.custom_op(CustomOperation::new(GreaterThanEqualTo { signed_comparison: true }), vec![a.clone(), b.clone()])?;
        let r5 = g.custom_op(CustomOperation::new(LessThanEqualTo { signed_comparison: false }), vec![a, b])?;
        g.create_tuple(vec![r1, r2, r3, r4, r5])?.set_as_output()?;
        g.finalize()?.set_as_main()?;
        c.finalize()?;
        Ok(c)
    });
    add("custom-ops-misc", &|| {
        use ciphercore_base::ops::{adder::BinaryAdd, min_max::Max, multiplexer::Mux};
        let c = create_context()?;
        let g = c.create_graph()?;
        let t = array_type(vec![8], BIT);
        let a = g.input(t.clone())?;
        let b = g.input(t)?;
        let f = g.input(t_bit())?;
        let r1 = g.custom_op(CustomOperation::new(BinaryAdd { overflow_bit: false }), vec![a.clone(), b.clone()])?;
        let r2 = g.custom_op(CustomOperation::new(Max { signed_comparison: false }), vec![a.clone(), b.clone()])?;
        let r3 = g.custom_op(CustomOperation::new(Mux {}), vec![f, a, b])?;
        g.create_tuple(vec![r1, r2, r3])?.set_as_output()?;
        g.finalize()?.set_as_main()?;
        c.finalize()?;
        Ok(c)
    });
    // compiler output (types supplied rather than inferred, annotations, PRF nodes)
    for (name, st, op) in [("compiled-mul-i32", INT32, Operation::Multiply), ("compiled-mul-bit", BIT, Operation::Multiply), ("compiled-add-u64", UINT64, Operation::Add)] {
        for mode in ["Simple", "Default"] {
            let nm = format!("{name}-{mode}");
            add(&nm, &|| {
                let c = create_context()?;
                let g = c.create_graph()?;
                let a = g.input(array_type(vec![2], st))?;
                let b = g.input(array_type(vec![2], st))?;
                let r = g.add_node(vec![a, b], vec![], op.clone())?;
                r.set_as_output()?;
                g.finalize()?.set_as_main()?;
                c.finalize()?;
                let o = [cc_conform::compile::io_status(&json!(0)), cc_conform::compile::io_status(&json!(1))];
                let outs = [cc_conform::compile::io_status(&json!(0))];
                let r = cc_conform::compile::compile(&c, &o, &outs, mode)?;
                Ok(r.mapped.get_context())
            });
        }
    }
    // final contexts of random histories (operations outside the model, partially built contexts)
    let names: Vec<String> = ["a", "b", "c"].iter().map(|s| s.to_string()).collect();
    for h in 0..6u64 {
        let rng = StdRng::seed_from_u64(seed.wrapping_mul(7919).wrapping_add(h));
        let mut d = Driver { rng, w: World::new(1, &names), finalized: Default::default() };
        for _ in 0..(40 + 20 * h) {
            let call = d.random_call(false, false);
            apply(&mut d.w, &call);
        }
        v.push((format!("random-history-{h}"), d.w.ctxs[0].clone()));
    }
    v
}

/// bases <cfg.json|-> <paths.ndjson|-> <seed> <out.ndjson>: base contexts of the C12 cases with their
/// observed round trip: states of the bounded C11 models (rebuilt from TLC's paths) + richer contexts.
fn cmd_bases(args: &[String]) {
    let seed: u64 = args[2].parse().unwrap();
    let mut out = std::io::BufWriter::new(std::fs::File::create(&args[3]).unwrap());
    let mut id = 0usize;
    if args[0] != "-" {
        let cfg: Json = serde_json::from_str(&std::fs::read_to_string(&args[0]).unwrap()).unwrap();
        let names: Vec<String> = UNIVERSE.iter().map(|s| s.to_string()).collect();
        for pj in read_ndjson(&args[1]) {
            let f = &cfg["feats"][pj["f"].as_u64().unwrap() as usize - 1];
            let calls: Vec<Call> = f["calls"].as_array().unwrap().iter().map(call_from).collect();
            let path: Vec<usize> = pj["path"].as_array().unwrap().iter().map(|x| x.as_u64().unwrap() as usize).collect();
            let w = build(f["nc"].as_u64().unwrap() as usize, &names, &calls, &path);
            id += 1;
            writeln!(out, "{}", base_record(id, &format!("model:{}", f["name"].as_str().unwrap()), &w.ctxs[0], true, true)).unwrap();
        }
    }
    for (name, c) in rich_contexts(seed) {
        id += 1;
        let nodes: u64 = c.get_graphs().iter().map(|g| g.get_num_nodes()).sum();
        writeln!(out, "{}", base_record(id, &name, &c, true, nodes <= 150)).unwrap();
    }
    println!("{}", json!({"bases": id}));
}

/// the real payload for a (possibly corrupted) normalised serial form: operations are taken from the
/// base payload by position, ids/flags/tables from `ser`
fn render_payload(ser: &Json, base_inner: &Json) -> Json {
    let opt = |j: &Json| if j.as_i64() == Some(-1) { Json::Null } else { j.clone() };
    let graphs: Vec<Json> = ser["graphs"]
        .as_array()
        .unwrap()
        .iter()
        .enumerate()
        .map(|(gi, g)| {
            let nodes: Vec<Json> = g["nodes"]
                .as_array()
                .unwrap()
                .iter()
                .enumerate()
                .map(|(ni, n)| {
                    let op = if n["op"]["o"] == "?" {
                        json!({"NoSuchOperation": [1, 2]})
                    } else {
                        base_inner["graphs"][gi]["nodes"][ni]["operation"].clone()
                    };
                    json!({"node_dependencies": n["nd"], "graph_dependencies": n["gd"], "operation": op})
                })
                .collect();
            json!({"finalized": g["finalized"], "nodes": nodes, "output_node": opt(&g["output_node"])})
        })
        .collect();
    let nann = |a: &Json| -> Vec<Json> { a.as_array().unwrap().iter().map(|x| serde_json::to_value(nann_from(x.as_str().unwrap())).unwrap()).collect() };
    let gann = |a: &Json| -> Vec<Json> { a.as_array().unwrap().iter().map(|x| serde_json::to_value(gann_from(x.as_str().unwrap())).unwrap()).collect() };
    json!({
        "finalized": ser["finalized"],
        "graphs": graphs,
        "main_graph": opt(&ser["main_graph"]),
        "graphs_names": ser["graphs_names"].as_array().unwrap().iter().map(|e| json!([e["g"], e["nm"]])).collect::<Vec<_>>(),
        "nodes_names": ser["nodes_names"].as_array().unwrap().iter().map(|e| json!([[e["g"], e["n"]], e["nm"]])).collect::<Vec<_>>(),
        "nodes_annotations": ser["nodes_annotations"].as_array().unwrap().iter().map(|e| json!([[e["g"], e["n"]], nann(&e["an"])])).collect::<Vec<_>>(),
        "graphs_annotations": ser["graphs_annotations"].as_array().unwrap().iter().map(|e| json!([e["g"], gann(&e["an"])])).collect::<Vec<_>>(),
    })
}

/// outcome record of deserializing `text` (class + projection of an Ok result)
fn outcome_record(text: &str) -> Json {
    let mut r = classify_text(text);
    let (out, msg, c) = deserialize(text);
    r["out"] = json!(out);
    r["msg"] = json!(msg);
    r["rpub"] = json!({});
    r["rser"] = json!({});
    r["names"] = json!(UNIVERSE);
    r["rproj_ok"] = json!(false);
    if let Some(c) = c {
        if let Ok((p, s, names, _)) = project_single(&c) {
            r["rpub"] = p;
            r["rser"] = s;
            r["names"] = json!(names);
            r["rproj_ok"] = json!(true);
        }
    }
    // the specification's probe universe is a,b,c,d: with other names only well-formedness is judged
    if r["names"].as_array().unwrap().len() != UNIVERSE.len() {
        r["predictable"] = json!(false);
    }
    r
}

/// mutate <bases.ndjson> <cases.ndjson> <out.ndjson>: every catalogue corruption (generated by TLC from
/// the specification's catalogue) rendered into the real JSON text of its base and deserialized.
fn cmd_mutate(args: &[String]) {
    let bases = read_ndjson(&args[0]);
    let cases = read_ndjson(&args[1]);
    let mut out = std::io::BufWriter::new(std::fs::File::create(&args[2]).unwrap());
    let mut by: std::collections::BTreeMap<String, u64> = Default::default();
    for case in cases {
        let b = bases.iter().find(|b| b["id"] == case["base"]).expect("base of case");
        let outer: Json = serde_json::from_str(b["text"].as_str().unwrap()).unwrap();
        let inner: Json = serde_json::from_str(outer["data"].as_str().unwrap()).unwrap();
        let payload = render_payload(&case["ser"], &inner).to_string();
        let data = match case["env"]["json"].as_str().unwrap() {
            "ok" => payload,
            "garbage" => "x".to_string(),
            "empty-object" => "{}".to_string(),
            _ => payload[..payload.len() / 2].to_string(),
        };
        let text = json!({"version": case["env"]["version"], "data": data}).to_string();
        let mut r = outcome_record(&text);
        r["base"] = case["base"].clone();
        r["kind"] = case["kind"].clone();
        r["src"] = json!("catalogue");
        r["text"] = json!(text);
        *by.entry(format!("{}:{}", case["kind"].as_str().unwrap(), r["out"].as_str().unwrap())).or_default() += 1;
        writeln!(out, "{}", r).unwrap();
    }
    println!("{}", json!({"by_kind_outcome": by}));
}

/// bytes <seed> <bases.ndjson> <out.ndjson> <nflips>: byte-level mutations of real serializations:
/// truncation at every offset (smallest bases), seeded random byte flips, envelope/payload splices.
fn cmd_bytes(args: &[String]) {
    let seed: u64 = args[0].parse().unwrap();
    let bases = read_ndjson(&args[1]);
    let mut out = std::io::BufWriter::new(std::fs::File::create(&args[2]).unwrap());
    let nflips: usize = args[3].parse().unwrap();
    let mut rng = StdRng::seed_from_u64(seed ^ 0xC12);
    let mut by: std::collections::BTreeMap<String, u64> = Default::default();
    let mut emit = |kind: &str, base: &Json, text: String, out: &mut std::io::BufWriter<std::fs::File>| {
        let mut r = outcome_record(&text);
        r["base"] = base["id"].clone();
        r["kind"] = json!(kind);
        r["src"] = json!("bytes");
        r["text"] = json!(text);
        *by.entry(format!("{}:{}", kind, r["out"].as_str().unwrap())).or_default() += 1;
        writeln!(out, "{}", r).unwrap();
    };
    let mut small: Vec<&Json> = bases.iter().filter(|b| b["text"].is_string() && b["nodes"].as_u64().unwrap_or(0) >= 2).collect();
    small.sort_by_key(|b| b["text"].as_str().unwrap().len());
    // truncation at every offset of the two smallest bases with at least two nodes
    for b in small.iter().take(2) {
        let t = b["text"].as_str().unwrap();
        for cut in 0..t.len() {
            if t.is_char_boundary(cut) {
                emit("truncate", b, t[..cut].to_string(), &mut out);
            }
        }
    }
    // random byte flips / digit changes over a spread of bases
    let pool: Vec<&Json> = bases.iter().filter(|b| b["text"].is_string() && b["text"].as_str().unwrap().len() < 20000).collect();
    for k in 0..nflips {
        let b = pool[rng.gen_range(0..pool.len())];
        let mut bytes = b["text"].as_str().unwrap().as_bytes().to_vec();
        let pos = rng.gen_range(0..bytes.len());
        let kind = match k % 4 {
            0 => {
                bytes[pos] ^= 1 << rng.gen_range(0..7);
                "bitflip"
            }
            1 => {
                // change a digit (ids, versions, shapes)
                let digits: Vec<usize> = (0..bytes.len()).filter(|i| bytes[*i].is_ascii_digit()).collect();
                let p = digits[rng.gen_range(0..digits.len())];
                bytes[p] = b'0' + rng.gen_range(0..10u8);
                "digit"
            }
            2 => {
                bytes.remove(pos);
                "delete-byte"
            }
            _ => {
                let c = b"{}[],:\"\\0n"[rng.gen_range(0..10)];
                bytes.insert(pos, c);
                "insert-byte"
            }
        };
        if let Ok(t) = String::from_utf8(bytes) {
            emit(kind, b, t, &mut out);
        }
    }
    // splices
    for i in 0..pool.len().min(12) {
        let a = pool[i];
        let b2 = pool[(i * 7 + 3) % pool.len()];
        let ea: Json = serde_json::from_str(a["text"].as_str().unwrap()).unwrap();
        let eb: Json = serde_json::from_str(b2["text"].as_str().unwrap()).unwrap();
        let da = ea["data"].as_str().unwrap();
        let db = eb["data"].as_str().unwrap();
        emit("splice-envelope-in-payload", a, json!({"version": 2, "data": a["text"]}).to_string(), &mut out);
        emit("splice-payload-as-envelope", a, da.to_string(), &mut out);
        emit("splice-payload-doubled", a, json!({"version": 2, "data": format!("{da}{da}")}).to_string(), &mut out);
        emit("splice-two-payload-halves", a, json!({"version": 2, "data": format!("{}{}", &da[..da.len() / 2], &db[db.len() / 2..])}).to_string(), &mut out);
        emit("splice-data-not-string", a, json!({"version": 2, "data": serde_json::from_str::<Json>(da).unwrap()}).to_string(), &mut out);
        emit("splice-version-string", a, json!({"version": "2", "data": da}).to_string(), &mut out);
        emit("splice-missing-data", a, json!({"version": 2}).to_string(), &mut out);
        emit("splice-value-payload", a, json!({"version": 2, "data": "{\"body\":{\"Bytes\":[1]}}"}).to_string(), &mut out);
        emit("splice-extra-field", a, json!({"version": 2, "data": da, "extra": 1}).to_string(), &mut out);
    }
    println!("{}", json!({"by_kind_outcome": by}));
}

/// value-cases <out.ndjson>: malformed inputs of the Value decoder (data_values.rs), same envelope
fn cmd_value_cases(args: &[String]) {
    let mut out = std::io::BufWriter::new(std::fs::File::create(&args[0]).unwrap());
    let good = serde_json::to_string(&Value::from_scalar(5, INT32).unwrap()).unwrap();
    let env: Json = serde_json::from_str(&good).unwrap();
    let payload = env["data"].as_str().unwrap_or("").to_string();
    let mut texts: Vec<(String, String)> = vec![
        ("value-valid".into(), good.clone()),
        ("value-payload-garbage".into(), json!({"version": env["version"], "data": "x"}).to_string()),
        ("value-payload-empty-object".into(), json!({"version": env["version"], "data": "{}"}).to_string()),
        ("value-wrong-version".into(), json!({"version": 7, "data": payload}).to_string()),
    ];
    for cut in [1usize, payload.len() / 2, payload.len().saturating_sub(1)] {
        texts.push(("value-payload-truncated".into(), json!({"version": env["version"], "data": &payload[..cut.min(payload.len())]}).to_string()));
    }
    for (kind, text) in texts {
        let o = match catch(AssertUnwindSafe(|| serde_json::from_str::<Value>(&text))) {
            Ok(Ok(_)) => ("ok", String::new()),
            Ok(Err(e)) => ("err", e.to_string()),
            Err(p) => ("panic", format!("{} {}", LAST_PANIC_LOC.lock().map(|g| g.clone()).unwrap_or_default(), p)),
        };
        writeln!(out, "{}", json!({"base": 0, "kind": kind, "src": "value", "text": text, "out": o.0, "msg": o.1.chars().take(200).collect::<String>(),
                                    "expect": if kind == "value-valid" { "ok" } else { "err" }})).unwrap();
    }
}

static LAST_PANIC_LOC: std::sync::Mutex<String> = std::sync::Mutex::new(String::new());

/// outcome <in.ndjson> <out.ndjson>: re-executes recorded texts (replay of a violation)
fn cmd_outcome(args: &[String]) {
    let mut out = std::io::BufWriter::new(std::fs::File::create(&args[1]).unwrap());
    for rec in read_ndjson(&args[0]) {
        let text = rec["text"].as_str().unwrap();
        let mut r = if rec["src"] == "value" {
            let o = match catch(AssertUnwindSafe(|| serde_json::from_str::<Value>(text))) {
                Ok(Ok(_)) => ("ok", String::new()),
                Ok(Err(e)) => ("err", e.to_string()),
                Err(p) => ("panic", format!("{} {}", LAST_PANIC_LOC.lock().map(|g| g.clone()).unwrap_or_default(), p)),
            };
            json!({"out": o.0, "msg": o.1, "expect": rec["expect"]})
        } else {
            outcome_record(text)
        };
        for k in ["base", "kind", "src", "text"] {
            r[k] = rec[k].clone();
        }
        writeln!(out, "{}", r).unwrap();
    }
}

fn main() {
    quiet_panics();
    // panics of the library are data: remember where the last one happened (file:line)
    std::panic::set_hook(Box::new(|info| {
        if let Some(l) = info.location() {
            let f = l.file().rsplit('/').next().unwrap_or("").to_string();
            if let Ok(mut g) = LAST_PANIC_LOC.lock() {
                *g = format!("{}:{}", f, l.line());
            }
        }
    }));
    let args: Vec<String> = std::env::args().collect();
    if args.len() < 2 {
        eprintln!("usage: ctxapi replay|random|sercases|mutate|bytes ...");
        std::process::exit(2);
    }
    let rest = &args[2..];
    match args[1].as_str() {
        "replay" => cmd_replay(rest),
        "random" => cmd_random(rest),
        "bases" => cmd_bases(rest),
        "mutate" => cmd_mutate(rest),
        "bytes" => cmd_bytes(rest),
        "value-cases" => cmd_value_cases(rest),
        "outcome" => cmd_outcome(rest),
        c => {
            eprintln!("unknown command {c}");
            std::process::exit(2);
        }
    }
}
