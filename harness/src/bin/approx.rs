//! Harness of C20: fixed-point approximations (reciprocal, inverse square root, division, exponential, sigmoid, GeLU,
//! fixed-point product, the generic piecewise-linear helper).
//! The harness only builds a graph with ONE approximation operation over an input array, executes the real library
//! (instantiation pass + SimpleEvaluator; optionally the real compile_context and the SimpleEvaluator on the compiled
//! graph) and records inputs and outputs.  TLC judges every record (spec/ApproxTrace.tla).
//!
//!   approx run <jobs.ndjson> <out.ndjson>
//!
//! job:  {id, op, st, p, k, lb, enc, [xr:[start,count] | x:[..]], [nr:[start,count] | n:[..]], [cart:1], [w:[..]],
//!        [compiled: seed], [L,R,fl,fr (op = pwlsq)]}
//!   op = newton | isqrt | gold | taylor | exp | sigmoid | gelu | fixmul | pwlsq
//!   x  = the swept argument (divisor for gold), n = second operand (dividend for gold, second factor for fixmul),
//!   w  = caller-supplied initial approximation (newton / isqrt / gold), cart = cartesian product n (major) x x (minor)
//! record: the job + out = ok|err|panic, msg, y (plaintext outputs), yc (compiled outputs, when requested),
//!   cout = ok|err|panic for the compiled run; piecewise-linear operations: al, be = the slope / offset tables
//!   (one entry per segment) read from the Constant nodes of the instantiated graph.
//! Operands (x, n, w) are JSON integers (below 2^31 in magnitude).  Outputs and tables:
//! enc = "int": JSON integers, clamped to +-2^30 (every judged domain keeps the true values far below);
//! enc = "limbs": 16 little-endian base-256 limbs of the 128-bit two's complement sign extension.
use cc_conform::export::st_from;
use cc_conform::{catch, quiet_panics, read_ndjson};
use ciphercore_base::custom_ops::{run_instantiation_pass, CustomOperation};
use ciphercore_base::data_types::{array_type, ScalarType, Type};
use ciphercore_base::data_values::Value;
use ciphercore_base::errors::Result;
use ciphercore_base::evaluators::random_evaluate;
use ciphercore_base::evaluators::simple_evaluator::SimpleEvaluator;
use ciphercore_base::evaluators::Evaluator;
use ciphercore_base::graphs::{create_context, Context, Graph, Node};
use ciphercore_base::mpc::mpc_compiler::IOStatus;
use ciphercore_base::ops::fixed_precision::fixed_multiply::FixedMultiply;
use ciphercore_base::ops::fixed_precision::fixed_precision_config::FixedPrecisionConfig;
use ciphercore_base::ops::goldschmidt_division::GoldschmidtDivision;
use ciphercore_base::ops::inverse_sqrt::InverseSqrt;
use ciphercore_base::ops::newton_inversion::NewtonInversion;
use ciphercore_base::ops::pwl::approx_exponent::ApproxExponent;
use ciphercore_base::ops::pwl::approx_gelu::ApproxGelu;
use ciphercore_base::ops::pwl::approx_pointwise::{create_approximation, PWLConfig};
use ciphercore_base::ops::pwl::approx_sigmoid::ApproxSigmoid;
use ciphercore_base::ops::taylor_exponent::TaylorExponent;
use serde_json::{json, Value as Json};
use std::io::Write;

const CLAMP: i128 = 1 << 30;

fn int_of(j: &Json) -> i128 {
    if let Some(s) = j.as_str() {
        return s.parse::<i128>().unwrap_or_else(|_| s.parse::<u128>().unwrap() as i128);
    }
    if let Some(i) = j.as_i64() {
        return i as i128;
    }
    j.as_u64().unwrap() as i128
}

fn list(j: &Json, range: &Json) -> Option<Vec<i128>> {
    if let Some(r) = range.as_array() {
        let (s, c) = (int_of(&r[0]), int_of(&r[1]));
        return Some((0..c).map(|i| s + i).collect());
    }
    j.as_array().map(|a| a.iter().map(int_of).collect())
}

fn enc(v: i128, mode: &str) -> Json {
    if mode == "limbs" {
        let u = v as u128;
        json!((0..16).map(|i| ((u >> (8 * i)) & 0xff) as u64).collect::<Vec<_>>())
    } else {
        json!(v.clamp(-CLAMP, CLAMP) as i64)
    }
}

fn to_value(xs: &[i128], st: ScalarType) -> Result<Value> {
    let m: u128 = if st.size_in_bits() >= 128 { u128::MAX } else { (1u128 << st.size_in_bits()) - 1 };
    let us: Vec<u128> = xs.iter().map(|x| (*x as u128) & m).collect();
    Value::from_flattened_array(&us, st)
}

fn from_value(v: &Value, t: &Type) -> Result<Vec<i128>> {
    let st = t.get_scalar_type();
    let us = v.to_flattened_array_u128(t.clone())?;
    let w = st.size_in_bits();
    let m: u128 = if w >= 128 { u128::MAX } else { (1u128 << w) - 1 };
    Ok(us
        .iter()
        .map(|u| u & m)
        .map(|u| {
            if st.is_signed() && w < 128 && (u >> (w - 1)) & 1 == 1 {
                (u as i128) - (1i128 << w)
            } else {
                u as i128
            }
        })
        .collect())
}

struct Job {
    op: String,
    st: ScalarType,
    p: u64,
    k: u64,
    lb: u64,
    pw: (f32, f32, bool, bool),
    nargs: usize,
}

/// the graph: one approximation operation over `nargs` input arrays of `len` elements
fn build(job: &Job, g: &Graph, ins: Vec<Node>) -> Result<Node> {
    match job.op.as_str() {
        "newton" => g.custom_op(CustomOperation::new(NewtonInversion { iterations: job.k, denominator_cap_2k: job.p }), ins),
        "isqrt" => g.custom_op(CustomOperation::new(InverseSqrt { iterations: job.k, denominator_cap_2k: job.p }), ins),
        // arguments of the library: dividend, divisor, [initial approximation]; ours: x = divisor, n = dividend, w
        "gold" => {
            let mut a = vec![ins[1].clone(), ins[0].clone()];
            if ins.len() == 3 {
                a.push(ins[2].clone());
            }
            g.custom_op(CustomOperation::new(GoldschmidtDivision { iterations: job.k, denominator_cap_2k: job.p }), a)
        }
        "taylor" => g.custom_op(CustomOperation::new(TaylorExponent { taylor_terms: job.k, fixed_precision_points: job.p }), ins),
        "exp" => g.custom_op(CustomOperation::new(ApproxExponent { precision: job.p }), ins),
        "sigmoid" => g.custom_op(CustomOperation::new(ApproxSigmoid { precision: job.p, approximation_log_buckets: job.lb }), ins),
        "gelu" => g.custom_op(CustomOperation::new(ApproxGelu { precision: job.p, approximation_log_buckets: job.lb }), ins),
        "fixmul" => g.custom_op(
            CustomOperation::new(FixedMultiply { config: FixedPrecisionConfig { fractional_bits: job.p, debug: false } }),
            ins,
        ),
        // the generic helper with the exactly representable function x -> x*x (as in the library's own tests)
        "pwlsq" => create_approximation(
            ins[0].clone(),
            |x| x * x,
            job.pw.0,
            job.pw.1,
            job.p,
            PWLConfig { log_buckets: job.lb, flatten_left: job.pw.2, flatten_right: job.pw.3 },
        ),
        o => panic!("unknown op {o}"),
    }
}

fn context_of(job: &Job, len: u64) -> Result<(Context, Type)> {
    let c = create_context()?;
    let g = c.create_graph()?;
    let t = array_type(vec![len], job.st);
    let mut ins = vec![];
    for _ in 0..job.nargs {
        ins.push(g.input(t.clone())?);
    }
    let o = build(job, &g, ins)?;
    let ot = o.get_type()?;
    o.set_as_output()?;
    g.finalize()?;
    g.set_as_main()?;
    c.finalize()?;
    Ok((c, ot))
}

/// The slope and offset tables (alphas, betas: one entry per segment, 2^log_buckets + 2 of them) of a piecewise-linear
/// operation, read from the Constant nodes of the instantiated graphs (they are created in this order).
fn segment_tables(ctx: &Context, job: &Job) -> Result<Option<(Vec<i128>, Vec<i128>)>> {
    let lb = match job.op.as_str() {
        "exp" => 6,
        "sigmoid" | "gelu" | "pwlsq" => job.lb,
        _ => return Ok(None),
    };
    let want = array_type(vec![(1u64 << lb) + 2], job.st);
    let mut found = vec![];
    for g in ctx.get_graphs() {
        for n in g.get_nodes() {
            if let ciphercore_base::graphs::Operation::Constant(t, v) = n.get_operation() {
                if t == want {
                    found.push(from_value(&v, &t)?);
                }
            }
        }
    }
    if found.len() != 2 {
        return Err(ciphercore_base::runtime_error!("expected 2 segment tables, found {}", found.len()));
    }
    let be = found.pop().unwrap();
    let al = found.pop().unwrap();
    Ok(Some((al, be)))
}

fn guarded<T>(f: impl FnOnce() -> Result<T> + std::panic::UnwindSafe) -> std::result::Result<T, (String, String)> {
    match catch(f) {
        Ok(Ok(x)) => Ok(x),
        Ok(Err(e)) => Err(("err".to_owned(), format!("{e}").chars().take(200).collect())),
        Err(p) => Err(("panic".to_owned(), p.chars().take(200).collect())),
    }
}

fn run_job(j: &Json) -> Json {
    let op = j["op"].as_str().unwrap().to_owned();
    let mode = j["enc"].as_str().unwrap_or("int").to_owned();
    let st = st_from(j["st"].as_str().unwrap_or("i64"));
    let xs0 = list(&j["x"], &j["xr"]).expect("x or xr");
    let ns0 = list(&j["n"], &j["nr"]);
    let ws = list(&j["w"], &Json::Null);
    let cart = j["cart"].as_u64().unwrap_or(0) == 1;
    let (xs, ns): (Vec<i128>, Option<Vec<i128>>) = match (&ns0, cart) {
        (Some(ns), true) => {
            let mut a = vec![];
            let mut b = vec![];
            for n in ns {
                for x in &xs0 {
                    a.push(*x);
                    b.push(*n);
                }
            }
            (a, Some(b))
        }
        _ => (xs0.clone(), ns0.clone()),
    };
    let mut args: Vec<Vec<i128>> = vec![xs.clone()];
    if let Some(ns) = &ns {
        args.push(ns.clone());
    }
    if let Some(ws) = &ws {
        args.push(ws.clone());
    }
    let job = Job {
        op: op.clone(),
        st,
        p: j["p"].as_u64().unwrap_or(0),
        k: j["k"].as_u64().unwrap_or(0),
        lb: j["lb"].as_u64().unwrap_or(0),
        pw: (
            j["L"].as_f64().unwrap_or(0.0) as f32,
            j["R"].as_f64().unwrap_or(0.0) as f32,
            j["fl"].as_u64().unwrap_or(0) == 1,
            j["fr"].as_u64().unwrap_or(0) == 1,
        ),
        nargs: args.len(),
    };
    let mut rec = j.clone();
    rec["len"] = json!(xs.len());
    let len = xs.len() as u64;
    // ---- plaintext: instantiate the custom operation, evaluate with the SimpleEvaluator
    let (jb, ar) = (&job, &args);
    let res = guarded(std::panic::AssertUnwindSafe(move || {
        let (c, ot) = context_of(jb, len)?;
        let mc = run_instantiation_pass(c)?;
        let tables = segment_tables(&mc.get_context(), jb)?;
        let vals = ar.iter().map(|a| to_value(a, jb.st)).collect::<Result<Vec<_>>>()?;
        let v = random_evaluate(mc.get_context().get_main_graph()?, vals)?;
        Ok((from_value(&v, &ot)?, tables))
    }));
    match res {
        Ok((ys, tables)) => {
            rec["out"] = json!("ok");
            rec["y"] = Json::Array(ys.iter().map(|v| enc(*v, &mode)).collect());
            if let Some((al, be)) = tables {
                rec["al"] = Json::Array(al.iter().map(|v| enc(*v, &mode)).collect());
                rec["be"] = Json::Array(be.iter().map(|v| enc(*v, &mode)).collect());
            }
        }
        Err((cls, msg)) => {
            rec["out"] = json!(cls);
            rec["msg"] = json!(msg);
            rec["y"] = json!([]);
        }
    }
    // ---- compiled: the real compile_context (inputs owned by party 0, output revealed to party 0), SimpleEvaluator
    if let Some(seed) = j["compiled"].as_u64() {
        let res = guarded(std::panic::AssertUnwindSafe(move || {
            let (c, _) = context_of(jb, len)?;
            let owners = vec![IOStatus::Party(0); jb.nargs];
            let r = cc_conform::compile::compile(&c, &owners, &[IOStatus::Party(0)], "Simple")?;
            let ctx = r.mapped.get_context();
            let ot = ctx.get_main_graph()?.get_output_node()?.get_type()?;
            let vals = ar.iter().map(|a| to_value(a, jb.st)).collect::<Result<Vec<_>>>()?;
            let mut s = [0u8; 16];
            s[..8].copy_from_slice(&seed.to_le_bytes());
            let mut ev = SimpleEvaluator::new(Some(s))?;
            let v = ev.evaluate_context(ctx, vals)?;
            from_value(&v, &ot)
        }));
        match res {
            Ok(ys) => {
                rec["cout"] = json!("ok");
                rec["yc"] = Json::Array(ys.iter().map(|v| enc(*v, &mode)).collect());
            }
            Err((cls, msg)) => {
                rec["cout"] = json!(cls);
                rec["cmsg"] = json!(msg);
                rec["yc"] = json!([]);
            }
        }
    }
    // operands stay JSON integers (every swept operand is below 2^31 in magnitude; ranges stay ranges)
    if j["x"].is_array() {
        rec["x"] = Json::Array(xs0.iter().map(|v| json!(*v as i64)).collect());
    }
    if j["n"].is_array() {
        rec["n"] = Json::Array(ns0.unwrap().iter().map(|v| json!(*v as i64)).collect());
    }
    if let Some(ws) = &ws {
        rec["w"] = Json::Array(ws.iter().map(|v| json!(*v as i64)).collect());
    }
    rec
}

fn main() {
    quiet_panics();
    let args: Vec<String> = std::env::args().collect();
    if args.len() != 4 || args[1] != "run" {
        eprintln!("usage: approx run <jobs.ndjson> <out.ndjson>");
        std::process::exit(2);
    }
    let jobs = read_ndjson(&args[2]);
    let mut out = std::io::BufWriter::new(std::fs::File::create(&args[3]).expect("create output"));
    for j in &jobs {
        let rec = run_job(j);
        writeln!(out, "{}", serde_json::to_string(&rec).unwrap()).unwrap();
    }
    out.flush().unwrap();
}
