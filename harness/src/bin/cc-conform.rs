use cc_conform::{compile, export, prog};

use std::collections::HashSet;
use serde_json::{json, Value as Json};
use std::io::{BufRead, Write};

fn read_jobs(path: &str) -> Vec<Json> {
    let f = std::fs::File::open(path).expect("open jobs");
    std::io::BufReader::new(f)
        .lines()
        .map(|l| l.unwrap())
        .filter(|l| !l.trim().is_empty())
        .map(|l| serde_json::from_str(&l).expect("job json"))
        .collect()
}

/// compile-dump <jobs.ndjson> <out.ndjson>: each job {id, prog, owners, outs, mode}; writes node records of every stage.
fn cmd_compile_dump(args: &[String]) {
    let jobs = read_jobs(&args[0]);
    let mut out = std::io::BufWriter::new(std::fs::File::create(&args[1]).unwrap());
    for job in jobs {
        let c = prog::build_context(&job["prog"]).expect("build");
        let owners: Vec<_> = job["owners"].as_array().unwrap().iter().map(compile::io_status).collect();
        let outs: Vec<_> = job["outs"].as_array().unwrap().iter().map(compile::io_status).collect();
        let r = compile::compile(&c, &owners, &outs, job["mode"].as_str().unwrap()).expect("compile");
        for (name, ctx) in r.stages.iter() {
            let g = ctx.get_main_graph().unwrap();
            for mut rec in export::export_graph_nodes(&g, export::Num::Mod(16)).unwrap() {
                rec["prog"] = job["id"].clone();
                rec["stage"] = json!(name);
                writeln!(out, "{}", rec).unwrap();
            }
        }
    }
}

fn owner_str(j: &Json) -> String {
    if let Some(p) = j.as_u64() {
        p.to_string()
    } else {
        j.as_str().unwrap().to_owned()
    }
}

/// compile-progs <jobs.ndjson> <out.ndjson> [src-stage]: one program record per job for the TLA+ interpreter:
/// {id, src:[nodes], mpc:[nodes], owners:["0"|"1"|"2"|"pub"|"sh"], outs:[party..], stages:{name: prf bag}}
fn cmd_compile_progs(args: &[String]) {
    let jobs = read_jobs(&args[0]);
    let src_stage = args.get(2).map(|s| s.as_str()).unwrap_or("prep.inlined");
    let mut out = std::io::BufWriter::new(std::fs::File::create(&args[1]).unwrap());
    for job in jobs {
        let res = std::panic::catch_unwind(|| -> ciphercore_base::errors::Result<Json> {
            let c = prog::build_context(&job["prog"])?;
            let owners: Vec<_> = job["owners"].as_array().unwrap().iter().map(compile::io_status).collect();
            let outs: Vec<_> = job["outs"].as_array().unwrap().iter().map(compile::io_status).collect();
            let r = compile::compile(&c, &owners, &outs, job["mode"].as_str().unwrap())?;
            let src = compile::stage(&r.stages, src_stage)?.get_main_graph()?;
            let mpc = compile::stage(&r.stages, "final.optimized")?.get_main_graph()?;
            let mut stages = serde_json::Map::new();
            for (name, ctx) in r.stages.iter() {
                stages.insert(name.clone(), compile::prf_bag(&ctx.get_main_graph()?));
            }
            Ok(json!({
                "id": job["id"],
                "src": export::export_graph_nodes(&src, export::Num::Mod(16))?,
                "mpc": export::export_graph_nodes(&mpc, export::Num::Mod(16))?,
                "owners": job["owners"].as_array().unwrap().iter().map(owner_str).collect::<Vec<_>>(),
                "outs": job["outs"],
                "mode": job["mode"],
                "stages": stages,
            }))
        });
        match res {
            Ok(Ok(rec)) => writeln!(out, "{}", rec).unwrap(),
            Ok(Err(e)) => eprintln!("job {}: compile error: {}", job["id"], e),
            Err(_) => eprintln!("job {}: PANIC", job["id"]),
        }
    }
}

/// optimize-cases <jobs.ndjson> <out.ndjson>: each job {id, prog}: builds the context with the real API, runs the real
/// optimize_context, exports the main graph before and after, the old->new node mapping, the types re-inferred after a
/// serde round trip of the optimised context, and evaluations of both on seeded inputs.
fn cmd_optimize_cases(args: &[String]) {
    use ciphercore_base::evaluators::simple_evaluator::SimpleEvaluator;
    use ciphercore_base::evaluators::Evaluator;
    use ciphercore_base::optimizer::optimize::optimize_context;
    let jobs = read_jobs(&args[0]);
    let mut out = std::io::BufWriter::new(std::fs::File::create(&args[1]).unwrap());
    cc_conform::quiet_panics();
    for job in jobs {
        let res = std::panic::catch_unwind(|| -> ciphercore_base::errors::Result<Json> {
            let c0 = match prog::build_context(&job["prog"]) {
                Ok(c) => c,
                Err(e) => {
                    // the case itself is not a well-typed graph: not the optimiser's business
                    return Ok(json!({"id": job["id"], "res": "builderr", "msg": e.to_string(), "before": [], "after": [], "map": [], "evals": [], "stages": {}}));
                }
            };
            // with "owners": the case is the last optimisation step of the real compilation pipeline
            // (the context after uniquify_prf_id, as recorded by the stage tracer)
            let (c, stage_bags) = if job.get("owners").is_some() {
                let owners: Vec<_> = job["owners"].as_array().unwrap().iter().map(compile::io_status).collect();
                let outs: Vec<_> = job["outs"].as_array().unwrap().iter().map(compile::io_status).collect();
                let r = match compile::compile(&c0, &owners, &outs, job["mode"].as_str().unwrap()) {
                    Ok(r) => r,
                    Err(e) => {
                        // the compiler rejects the source program: there is no optimisation step to judge
                        return Ok(json!({"id": job["id"], "res": "builderr", "msg": format!("compile: {}", e), "before": [], "after": [], "map": [], "evals": [], "stages": {}}));
                    }
                };
                let mut bags = serde_json::Map::new();
                for (name, ctx) in r.stages.iter() {
                    let mut b = compile::prf_bag(&ctx.get_main_graph()?);
                    b["graphs"] = json!(ctx.get_graphs().len());
                    b["nodes"] = json!(ctx.get_main_graph()?.get_nodes().len());
                    bags.insert(name.clone(), b);
                }
                (compile::stage(&r.stages, "mpc.uniquified")?.clone(), Json::Object(bags))
            } else {
                (c0, json!({}))
            };
            let mapped = optimize_context(&c, SimpleEvaluator::new(None)?)?;
            let before = c.get_main_graph()?;
            let after = mapped.get_context().get_main_graph()?;
            let mut map = vec![];
            for n in before.get_nodes() {
                if mapped.mappings.contains_node(&n) {
                    let m = mapped.mappings.get_node(&n);
                    map.push(json!([n.get_id() + 1, m.get_id() + 1]));
                }
            }
            // serde round trip of the optimised context: re-inferred types
            let text = serde_json::to_string(&mapped.get_context())?;
            let reloaded: ciphercore_base::graphs::Context = serde_json::from_str(&text)?;
            let rg = reloaded.get_main_graph()?;
            let mut after_nodes = export::export_graph_nodes(&after, export::Num::Mod(16))?;
            for (i, n) in rg.get_nodes().iter().enumerate() {
                after_nodes[i]["ty_reload"] = export::type_json(&n.get_type()?);
            }
            // evaluation before / after reload on seeded inputs (only meaningful without randomness)
            let mut evals = vec![];
            let seed = job["seed"].as_u64().unwrap_or(1);
            for k in 0..3u64 {
                let mut prng = ciphercore_base::random::PRNG::new(Some({
                    let mut s = [0u8; 16];
                    s[..8].copy_from_slice(&(seed * 31 + k).to_le_bytes());
                    s
                }))?;
                let mut ins = vec![];
                for n in compile::inputs_of(&before) {
                    ins.push(prng.get_random_value(n.get_type()?)?);
                }
                let t = before.get_output_node()?.get_type()?;
                let v0 = SimpleEvaluator::new(Some([7u8; 16]))?.evaluate_graph(before.clone(), ins.clone());
                let v1 = SimpleEvaluator::new(Some([7u8; 16]))?.evaluate_graph(rg.clone(), ins.clone());
                let show = |v: ciphercore_base::errors::Result<ciphercore_base::data_values::Value>| match v {
                    Ok(v) => export::value_json(&v, &t, export::Num::Str).unwrap_or(json!("unprintable")),
                    Err(_) => json!("error"),
                };
                evals.push(json!({"before": show(v0), "after_reload": show(v1)}));
            }
            Ok(json!({
                "id": job["id"], "res": "ok",
                "before": export::export_graph_nodes(&before, export::Num::Mod(16))?,
                "after": after_nodes, "map": map, "evals": evals,
                "before_prf": compile::prf_bag(&before), "after_prf": compile::prf_bag(&after),
                "stages": stage_bags,
            }))
        });
        match res {
            Ok(Ok(rec)) => writeln!(out, "{}", rec).unwrap(),
            Ok(Err(e)) => writeln!(out, "{}", json!({"id": job["id"], "res": "err", "msg": e.to_string(), "before": [], "after": [], "map": [], "evals": [], "stages": {}})).unwrap(),
            Err(_) => writeln!(out, "{}", json!({"id": job["id"], "res": "panic", "before": [], "after": [], "map": [], "evals": [], "stages": {}})).unwrap(),
        }
    }
}

/// run3 <jobs.ndjson> <out.ndjson>: each job {id, name, prog, owners, outs, mode, inputs:[values], seeds:[..], junk:[..]}.
/// Compiles with the real compile_context, evaluates the source graph in plaintext (expected result) and runs the
/// compiled graph as three separate parties (cc_conform::party3) for every (seed, junk kind); one record per run.
fn cmd_run3(args: &[String]) {
    use cc_conform::party3::{run_three_parties, Junk};
    use ciphercore_base::evaluators::random_evaluate;
    let jobs = read_jobs(&args[0]);
    let mut out = std::io::BufWriter::new(std::fs::File::create(&args[1]).unwrap());
    cc_conform::quiet_panics();
    for job in jobs {
        let res = cc_conform::catch(std::panic::AssertUnwindSafe(|| -> ciphercore_base::errors::Result<Vec<Json>> {
            let c = prog::build_context(&job["prog"])?;
            let src = c.get_main_graph()?;
            let in_nodes = compile::inputs_of(&src);
            let mut inputs = vec![];
            for (n, v) in in_nodes.iter().zip(job["inputs"].as_array().unwrap().iter()) {
                inputs.push(export::json_value(v, &n.get_type()?)?);
            }
            let rt = src.get_output_node()?.get_type()?;
            // plaintext result of the source graph (custom operations instantiated, calls evaluated directly)
            let inst = ciphercore_base::custom_ops::run_instantiation_pass(c.clone())?;
            let expected = random_evaluate(inst.get_context().get_main_graph()?, inputs.clone())?;
            let owners: Vec<_> = job["owners"].as_array().unwrap().iter().map(compile::io_status).collect();
            let outs: Vec<_> = job["outs"].as_array().unwrap().iter().map(compile::io_status).collect();
            let r = compile::compile(&c, &owners, &outs, job["mode"].as_str().unwrap())?;
            let g = r.mapped.get_context().get_main_graph()?;
            let mut recs = vec![];
            for seed in job["seeds"].as_array().unwrap() {
                // the same compiled graph on ONE store (the evaluation model of the repository's tests): C01 at full width.
                // Shared inputs are given as a sharing produced by the library itself.
                let single: Json = {
                    use ciphercore_base::evaluators::simple_evaluator::SimpleEvaluator;
                    use ciphercore_base::evaluators::Evaluator;
                    use ciphercore_base::mpc::mpc_compiler::IOStatus;
                    let sd = seed.as_u64().unwrap();
                    let mut s16 = [0u8; 16];
                    s16[..8].copy_from_slice(&sd.to_le_bytes());
                    let mut prng = ciphercore_base::random::PRNG::new(Some(s16))?;
                    let mut cin = vec![];
                    for (k, v) in inputs.iter().enumerate() {
                        if owners[k] == IOStatus::Shared {
                            let t = in_nodes[k].get_type()?;
                            cin.push(ciphercore_base::typed_value::TypedValue::new(t, v.clone())?.secret_share(&mut prng)?.value);
                        } else {
                            cin.push(v.clone());
                        }
                    }
                    let gg = g.clone();
                    let ot = gg.get_output_node()?.get_type()?;
                    match cc_conform::catch(std::panic::AssertUnwindSafe(move || SimpleEvaluator::new(Some(s16)).and_then(|mut e| e.evaluate_graph(gg, cin)))) {
                        Ok(Ok(v)) => {
                            // bring a revealed named tuple into the source column order (see below)
                            let v2 = if let (ciphercore_base::data_types::Type::NamedTuple(a), ciphercore_base::data_types::Type::NamedTuple(b), false) = (&ot, &rt, outs.is_empty()) {
                                let names_a: Vec<String> = a.iter().map(|x| x.0.clone()).collect();
                                match v.to_vector() {
                                    Ok(cols) if a.len() == b.len() && b.iter().all(|x| names_a.contains(&x.0)) => ciphercore_base::data_values::Value::from_vector(
                                        b.iter().map(|x| cols[names_a.iter().position(|n| *n == x.0).unwrap()].clone()).collect()),
                                    _ => v,
                                }
                            } else {
                                v
                            };
                            let tt = if outs.is_empty() { ot.clone() } else { rt.clone() };
                            export::value_json(&v2, &tt, export::Num::Limbs).unwrap_or(json!("error"))
                        }
                        _ => json!("error"),
                    }
                };
                for jk in job["junk"].as_array().unwrap() {
                    let junk = match jk.as_str().unwrap() {
                        "zeros" => Junk::Zeros,
                        "ones" => Junk::Ones,
                        _ => Junk::Random,
                    };
                    let run = run_three_parties(&g, &owners, &inputs, junk, seed.as_u64().unwrap())?;
                    let shared = outs.is_empty();
                    // column order of named tuples is judged elsewhere (C19): bring a revealed named-tuple result into
                    // the order of the source result type, by name, before comparing content
                    let mut run = run;
                    if !shared {
                        if let (ciphercore_base::data_types::Type::NamedTuple(a), ciphercore_base::data_types::Type::NamedTuple(b)) = (&run.out_type, &rt) {
                            let names_a: Vec<String> = a.iter().map(|x| x.0.clone()).collect();
                            let mut sa = names_a.clone();
                            let mut sb: Vec<String> = b.iter().map(|x| x.0.clone()).collect();
                            sa.sort();
                            sb.sort();
                            if sa == sb && run.out_type != rt {
                                for p in 0..3 {
                                    if let Some(v) = &run.out[p] {
                                        if let Ok(cols) = v.to_vector() {
                                            let re: Vec<_> = b.iter().map(|x| cols[names_a.iter().position(|n| *n == x.0).unwrap()].clone()).collect();
                                            run.out[p] = Some(ciphercore_base::data_values::Value::from_vector(re));
                                        }
                                    }
                                }
                                run.out_type = rt.clone();
                            }
                        }
                    }
                    // a shared output is the 3-tuple of shares; a revealed one has the plaintext result type
                    let mut ok = vec![];
                    let mut vals = vec![];
                    for p in 0..3 {
                        match &run.out[p] {
                            Some(v) => match export::value_json(v, &run.out_type, export::Num::Limbs) {
                                Ok(j) => {
                                    ok.push(true);
                                    vals.push(j)
                                }
                                Err(_) => {
                                    ok.push(false);
                                    vals.push(json!("poison"))
                                }
                            },
                            None => {
                                ok.push(false);
                                vals.push(json!("poison"))
                            }
                        }
                    }
                    recs.push(json!({
                        "id": job["id"], "name": job["name"], "owners": job["owners"].as_array().unwrap().iter().map(owner_str).collect::<Vec<_>>(),
                        "outs": job["outs"], "mode": job["mode"], "seed": seed, "junk": jk,
                        "ty": export::type_json(&rt),
                        "out_ty_matches": shared || run.out_type == rt,
                        "expected": export::value_json(&expected, &rt, export::Num::Limbs)?,
                        "ok": ok, "out": vals, "nodes": g.get_nodes().len(), "sends": run.sends, "poisoned": run.poisoned,
                        "single_ok": single != json!("error"), "single": single.clone(),
                    }));
                }
            }
            Ok(recs)
        }));
        match res {
            Ok(Ok(recs)) => {
                for r in recs {
                    writeln!(out, "{}", r).unwrap();
                }
            }
            Ok(Err(e)) => eprintln!("job {}: error: {}", job["id"], e),
            Err(p) => eprintln!("job {}: PANIC {}", job["id"], p),
        }
    }
}

/// stage-trace <jobs.ndjson> <out.ndjson>: for every job the sequence of stage events recorded by the hook inside the real
/// compile_context, as one trace: a "begin" record (job, owners, outs), one record per stage, an "end" record (ok | err).
fn cmd_stage_trace(args: &[String]) {
    let jobs = read_jobs(&args[0]);
    let mut out = std::io::BufWriter::new(std::fs::File::create(&args[1]).unwrap());
    cc_conform::quiet_panics();
    for job in jobs {
        let c = match prog::build_context(&job["prog"]) {
            Ok(c) => c,
            Err(_) => continue,
        };
        let owners: Vec<_> = job["owners"].as_array().unwrap().iter().map(compile::io_status).collect();
        let outs: Vec<_> = job["outs"].as_array().unwrap().iter().map(compile::io_status).collect();
        let _ = ciphercore_base::verif_hooks::drain_stages();
        let r = cc_conform::catch(std::panic::AssertUnwindSafe(|| {
            ciphercore_base::mpc::mpc_compiler::compile_context(c.clone(), owners.clone(), outs.clone(), compile::inline_config(job["mode"].as_str().unwrap()), || {
                ciphercore_base::evaluators::simple_evaluator::SimpleEvaluator::new(None)
            })
        }));
        let stages = ciphercore_base::verif_hooks::drain_stages();
        writeln!(out, "{}", json!({"ev": "begin", "job": job["id"], "n_in": owners.len(), "shared_out": outs.is_empty(),
            "graphs": 0, "main_nodes": 0, "custom": 0, "calls": 0, "prf": [], "rnd": 0, "inputs": [], "finalized": false, "out_ty": {"k":"t","el":[]}})).unwrap();
        for (name, ctx) in stages.iter() {
            if let Ok(s) = compile::stage_summary(name, ctx) {
                writeln!(out, "{}", s).unwrap();
            }
        }
        let res = match r {
            Ok(Ok(_)) => "ok",
            Ok(Err(_)) => "err",
            Err(_) => "panic",
        };
        writeln!(out, "{}", json!({"ev": "end", "res": res, "job": job["id"],
            "graphs": 0, "main_nodes": 0, "custom": 0, "calls": 0, "prf": [], "rnd": 0, "inputs": [], "finalized": false, "out_ty": {"k":"t","el":[]}})).unwrap();
    }
}

/// detleak <jobs.ndjson> <out.ndjson>: wide-width privacy phase of C03 (spec/DetLeakTrace.tla).
/// job {id, name, prog, owners, outs, mode, observer, inputs_a, inputs_b, runs, seed}: inputs_a / inputs_b differ only in
/// private inputs of parties other than the observer, and the observer is not an output party.  For each of the two input
/// vectors the compiled graph is run `runs` times as three parties with the observer's randomness (own draws, the keys it
/// receives) fixed and everybody else's fresh; the record lists, per node of the observer's store, the number of distinct
/// values over the A runs, over the B runs, and whether the first A value equals the first B value.
fn cmd_detleak(args: &[String]) {
    use cc_conform::detleak::{known_keys, run_observed, value_bytes};
    let jobs = read_jobs(&args[0]);
    let mut out = std::io::BufWriter::new(std::fs::File::create(&args[1]).unwrap());
    cc_conform::quiet_panics();
    for job in jobs {
        let res = cc_conform::catch(std::panic::AssertUnwindSafe(|| -> ciphercore_base::errors::Result<Json> {
            let c = prog::build_context(&job["prog"])?;
            let src = c.get_main_graph()?;
            let in_nodes = compile::inputs_of(&src);
            let parse = |key: &str| -> ciphercore_base::errors::Result<Vec<ciphercore_base::data_values::Value>> {
                let mut inputs = vec![];
                for (n, v) in in_nodes.iter().zip(job[key].as_array().unwrap().iter()) {
                    inputs.push(export::json_value(v, &n.get_type()?)?);
                }
                Ok(inputs)
            };
            let owners: Vec<_> = job["owners"].as_array().unwrap().iter().map(compile::io_status).collect();
            let outs: Vec<_> = job["outs"].as_array().unwrap().iter().map(compile::io_status).collect();
            let ia = parse("inputs_a")?;
            // an observer that receives the output may only be shown input vectors with the same plaintext result: the
            // first candidate whose result (real evaluator on the instantiated source) equals that of inputs_a
            let ib = if let Some(cands) = job["inputs_b_candidates"].as_array() {
                use ciphercore_base::evaluators::random_evaluate;
                let inst = ciphercore_base::custom_ops::run_instantiation_pass(c.clone())?;
                let mg = inst.get_context().get_main_graph()?;
                let bytes_of = |v: &ciphercore_base::data_values::Value| {
                    let mut b = vec![];
                    cc_conform::detleak::value_bytes(v, &mut b);
                    b
                };
                let ra = bytes_of(&random_evaluate(mg.clone(), ia.clone())?);
                let mut found = None;
                for cand in cands {
                    let mut inputs = vec![];
                    for (n, v) in in_nodes.iter().zip(cand.as_array().unwrap().iter()) {
                        inputs.push(export::json_value(v, &n.get_type()?)?);
                    }
                    if bytes_of(&random_evaluate(mg.clone(), inputs.clone())?) == ra {
                        found = Some(inputs);
                        break;
                    }
                }
                match found {
                    Some(x) => x,
                    None => return Ok(json!({"id": job["id"], "name": job["name"], "skipped": "no candidate with the same output"})),
                }
            } else {
                parse("inputs_b")?
            };
            let r = compile::compile(&c, &owners, &outs, job["mode"].as_str().unwrap())?;
            let g = r.mapped.get_context().get_main_graph()?;
            let obs = job["observer"].as_u64().unwrap() as usize;
            let runs = job["runs"].as_u64().unwrap();
            let seed = job["seed"].as_u64().unwrap();
            let fixed = known_keys(&g, &owners, &ia, obs, seed)?;
            let n = g.get_nodes().len();
            // entries: one per node, then the component differences of container-valued nodes (count fixed by the types)
            let node_types: Vec<ciphercore_base::data_types::Type> = g.get_nodes().iter().map(|x| x.get_type()).collect::<ciphercore_base::errors::Result<Vec<_>>>()?;
            let zero_of = |t: &ciphercore_base::data_types::Type| ciphercore_base::data_values::Value::zero_of_type(t.clone());
            let nd: Vec<usize> = node_types.iter().map(|t| cc_conform::detleak::component_diffs(&zero_of(t), t).len()).collect();
            let n_nodes = n;
            let n = n_nodes + nd.iter().sum::<usize>();
            let mut seen: [Vec<std::collections::HashSet<Vec<u8>>>; 2] = [vec![Default::default(); n], vec![Default::default(); n]];
            let mut first: [Vec<Vec<u8>>; 2] = [vec![vec![]; n], vec![vec![]; n]];
            // 64-bit digests of the observer's store values per (side, run, node): the equality pattern between two values
            // of one run ([v_a = v_b]) is a function of the view as well (PairLeakFree in spec/DetLeakTrace.tla)
            let mut digest: [Vec<Vec<u64>>; 2] = [vec![], vec![]];
            let hash64 = |b: &[u8]| -> u64 {
                use std::hash::{Hash, Hasher};
                let mut h = std::collections::hash_map::DefaultHasher::new();
                b.hash(&mut h);
                h.finish()
            };
            for (side, inputs) in [&ia, &ib].iter().enumerate() {
                for k in 0..runs {
                    let run = run_observed(&g, &owners, inputs, obs, seed, seed.wrapping_mul(1000003).wrapping_add(17 + k + 1000 * side as u64), &fixed)?;
                    let mut entries: Vec<Vec<u8>> = Vec::with_capacity(n);
                    for v in run.store.iter() {
                        let mut b = vec![];
                        match v {
                            Some(v) => value_bytes(v, &mut b),
                            None => b.push(255),
                        }
                        entries.push(b);
                    }
                    // values of fewer than 8 bytes coincide by chance too often to say anything (digest 0 = not compared)
                    digest[side].push(entries.iter().map(|b| if b.len() >= 13 && b[0] != 255 { hash64(b) | 1 } else { 0 }).collect());
                    for (i, v) in run.store.iter().enumerate() {
                        match v {
                            Some(v) => {
                                let mut d = cc_conform::detleak::component_diffs(v, &node_types[i]);
                                d.resize(nd[i], vec![254u8]);
                                entries.extend(d);
                            }
                            None => entries.extend((0..nd[i]).map(|_| vec![255u8])),
                        }
                    }
                    for (i, b) in entries.into_iter().enumerate() {
                        if k == 0 {
                            first[side][i] = b.clone();
                        }
                        seen[side][i].insert(b);
                    }
                }
            }
            let nodes = g.get_nodes();
            let mut per = vec![];
            let mut flagged = vec![];
            for i in 0..n {
                let same = first[0][i] == first[1][i];
                per.push(json!([seen[0][i].len(), seen[1][i].len(), if same { 1 } else { 0 }]));
                if seen[0][i].len() == 1 && seen[1][i].len() == 1 && !same {
                    if i < n_nodes {
                        flagged.push(json!({"node": i, "op": format!("{}", nodes[i].get_operation()),
                            "sends": nodes[i].get_annotations()?.iter().map(|a| format!("{:?}", a)).collect::<Vec<_>>()}));
                    } else {
                        flagged.push(json!({"entry": i, "what": "difference of two neighbouring components of one stored container value"}));
                    }
                }
            }
            // pairs of store values: classes of values that are equal in EVERY run of one side (chained digests), one
            // representative per class of the other side; for each such pair the number of runs with equal values per side
            let chain = |side: usize| -> Vec<u64> {
                let mut key = vec![0u64; n_nodes];
                for run in digest[side].iter() {
                    for i in 0..n_nodes {
                        key[i] = if run[i] == 0 { 0 } else { hash64(&[key[i].to_le_bytes(), run[i].to_le_bytes()].concat()) | 1 };
                    }
                }
                // a value that was not comparable in some run is never "always equal"
                for run in digest[side].iter() {
                    for i in 0..n_nodes {
                        if run[i] == 0 {
                            key[i] = 0;
                        }
                    }
                }
                key
            };
            let keys = [chain(0), chain(1)];
            let count_eq = |side: usize, a: usize, b: usize| -> u64 { digest[side].iter().filter(|r| r[a] != 0 && r[a] == r[b]).count() as u64 };
            let mut pairs = vec![];
            let mut pair_nodes = vec![];
            let mut structural_pairs = 0u64;
            for side in 0..2 {
                let other = 1 - side;
                let mut classes: std::collections::HashMap<u64, Vec<usize>> = Default::default();
                for i in 0..n_nodes {
                    if keys[side][i] != 0 {
                        classes.entry(keys[side][i]).or_default().push(i);
                    }
                }
                let mut cl: Vec<_> = classes.into_values().filter(|c| c.len() >= 2).collect();
                cl.sort();
                for c in cl {
                    // one representative per class of the other side (members of one class there are equal on both sides)
                    let mut reps: Vec<usize> = vec![];
                    let mut seen_other: HashSet<u64> = Default::default();
                    for &i in c.iter() {
                        let k = keys[other][i];
                        if k == 0 || seen_other.insert(k) {
                            reps.push(i);
                        } else {
                            structural_pairs += 1;
                        }
                    }
                    let reps = &reps[..reps.len().min(40)];
                    for (x, &a) in reps.iter().enumerate() {
                        for &b in reps[x + 1..].iter() {
                            let (ea, eb) = (count_eq(0, a, b), count_eq(1, a, b));
                            if side == 1 && ea == runs {
                                continue; // already listed from side 0
                            }
                            pairs.push(json!([ea, eb]));
                            pair_nodes.push(json!([a, b]));
                        }
                    }
                }
            }
            Ok(json!({"id": job["id"], "name": job["name"], "observer": obs, "runs": runs, "pairs": pairs, "pair_nodes": pair_nodes, "structural_pairs": structural_pairs,
                "owners": job["owners"].as_array().unwrap().iter().map(owner_str).collect::<Vec<_>>(), "outs": job["outs"], "mode": job["mode"],
                "nodes": n_nodes, "entries": n, "known_keys": fixed.len(), "per": per, "flagged": flagged,
                "out": g.get_output_node()?.get_id() + 1,
                "outobs": job["outs"].as_array().unwrap().iter().any(|x| x.as_u64() == Some(obs as u64))}))
        }));
        match res {
            Ok(Ok(rec)) => writeln!(out, "{}", rec).unwrap(),
            Ok(Err(e)) => eprintln!("job {}: error: {}", job["id"], e),
            Err(p) => eprintln!("job {}: PANIC {}", job["id"], p),
        }
    }
}

fn main() {
    let args: Vec<String> = std::env::args().skip(1).collect();
    if args.is_empty() {
        eprintln!("usage: cc-conform <command> ...");
        std::process::exit(2);
    }
    match args[0].as_str() {
        "compile-dump" => cmd_compile_dump(&args[1..]),
        "compile-progs" => cmd_compile_progs(&args[1..]),
        "optimize-cases" => cmd_optimize_cases(&args[1..]),
        "run3" => cmd_run3(&args[1..]),
        "stage-trace" => cmd_stage_trace(&args[1..]),
        "detleak" => cmd_detleak(&args[1..]),
        c => {
            eprintln!("unknown command {c}");
            std::process::exit(2);
        }
    }
}
