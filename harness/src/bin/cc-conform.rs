use cc_conform::{compile, export, prog};

use serde_json::{json, Value as Json};
use std::io::{BufRead, Write};

fn read_jobs(path: &str) -> Vec<Json> {
    let f = std::fs::File::open(path).expect("open jobs");
    std::io::BufReader::new(f)
        .lines()
        .map(|l| l.unwrap())
        .filter(|l| !l.trim().is_empty())
        .map(|l| serde_json::from_str(&l).expect("job json"))
        .collect()
}

/// compile-dump <jobs.ndjson> <out.ndjson>: each job {id, prog, owners, outs, mode}; writes node records of every stage.
fn cmd_compile_dump(args: &[String]) {
    let jobs = read_jobs(&args[0]);
    let mut out = std::io::BufWriter::new(std::fs::File::create(&args[1]).unwrap());
    for job in jobs {
        let c = prog::build_context(&job["prog"]).expect("build");
        let owners: Vec<_> = job["owners"].as_array().unwrap().iter().map(compile::io_status).collect();
        let outs: Vec<_> = job["outs"].as_array().unwrap().iter().map(compile::io_status).collect();
        let r = compile::compile(&c, &owners, &outs, job["mode"].as_str().unwrap()).expect("compile");
        for (name, ctx) in r.stages.iter() {
            let g = ctx.get_main_graph().unwrap();
            for mut rec in export::export_graph_nodes(&g, export::Num::Mod(16)).unwrap() {
                rec["prog"] = job["id"].clone();
                rec["stage"] = json!(name);
                writeln!(out, "{}", rec).unwrap();
            }
        }
    }
}

fn owner_str(j: &Json) -> String {
    if let Some(p) = j.as_u64() {
        p.to_string()
    } else {
        j.as_str().unwrap().to_owned()
    }
}

/// compile-progs <jobs.ndjson> <out.ndjson> [src-stage]: one program record per job for the TLA+ interpreter:
/// {id, src:[nodes], mpc:[nodes], owners:["0"|"1"|"2"|"pub"|"sh"], outs:[party..], stages:{name: prf bag}}
fn cmd_compile_progs(args: &[String]) {
    let jobs = read_jobs(&args[0]);
    let src_stage = args.get(2).map(|s| s.as_str()).unwrap_or("prep.inlined");
    let mut out = std::io::BufWriter::new(std::fs::File::create(&args[1]).unwrap());
    for job in jobs {
        let res = std::panic::catch_unwind(|| -> ciphercore_base::errors::Result<Json> {
            let c = prog::build_context(&job["prog"])?;
            let owners: Vec<_> = job["owners"].as_array().unwrap().iter().map(compile::io_status).collect();
            let outs: Vec<_> = job["outs"].as_array().unwrap().iter().map(compile::io_status).collect();
            let r = compile::compile(&c, &owners, &outs, job["mode"].as_str().unwrap())?;
            let src = compile::stage(&r.stages, src_stage)?.get_main_graph()?;
            let mpc = compile::stage(&r.stages, "final.optimized")?.get_main_graph()?;
            let mut stages = serde_json::Map::new();
            for (name, ctx) in r.stages.iter() {
                stages.insert(name.clone(), compile::prf_bag(&ctx.get_main_graph()?));
            }
            Ok(json!({
                "id": job["id"],
                "src": export::export_graph_nodes(&src, export::Num::Mod(16))?,
                "mpc": export::export_graph_nodes(&mpc, export::Num::Mod(16))?,
                "owners": job["owners"].as_array().unwrap().iter().map(owner_str).collect::<Vec<_>>(),
                "outs": job["outs"],
                "mode": job["mode"],
                "stages": stages,
            }))
        });
        match res {
            Ok(Ok(rec)) => writeln!(out, "{}", rec).unwrap(),
            Ok(Err(e)) => eprintln!("job {}: compile error: {}", job["id"], e),
            Err(_) => eprintln!("job {}: PANIC", job["id"]),
        }
    }
}

fn main() {
    let args: Vec<String> = std::env::args().skip(1).collect();
    if args.is_empty() {
        eprintln!("usage: cc-conform <command> ...");
        std::process::exit(2);
    }
    match args[0].as_str() {
        "compile-dump" => cmd_compile_dump(&args[1..]),
        "compile-progs" => cmd_compile_progs(&args[1..]),
        c => {
            eprintln!("unknown command {c}");
            std::process::exit(2);
        }
    }
}
