//! Harness of the C16-C19 family: bit-level custom operations, sorting / permutations, plaintext joins.
//! The harness only executes the real library and records what it returned; TLC judges every record
//! (spec/BitOpsTrace.tla, spec/RelTrace.tla).
//!
//!   bitrel ops  <jobs.ndjson> <out.ndjson>     comparison / min / max / adder / mux / clip / long division
//!   bitrel rel  <jobs.ndjson> <out.ndjson>     sort / integer-key sort / permutations / joins
use cc_conform::export::{self, st_from, st_mask, VTree};
use cc_conform::{catch, quiet_panics, read_ndjson};
use ciphercore_base::custom_ops::{run_instantiation_pass, CustomOperation};
use ciphercore_base::data_types::{array_type, named_tuple_type, scalar_type, tuple_type, ScalarType, Type, BIT};
use ciphercore_base::data_values::Value;
use ciphercore_base::errors::Result;
use ciphercore_base::evaluators::random_evaluate;
use ciphercore_base::graphs::{create_context, Graph, JoinType, Node};
use ciphercore_base::ops::adder::BinaryAdd;
use ciphercore_base::ops::clip::Clip2K;
use ciphercore_base::ops::comparisons::{Equal, GreaterThan, GreaterThanEqualTo, LessThan, LessThanEqualTo, NotEqual};
use ciphercore_base::ops::integer_key_sort::SortByIntegerKey;
use ciphercore_base::ops::long_division::LongDivision;
use ciphercore_base::ops::min_max::{Max, Min};
use ciphercore_base::ops::multiplexer::Mux;
use ciphercore_base::type_inference::NULL_HEADER;
use serde_json::{json, Value as Json};
use std::collections::HashMap;
use std::io::Write;

// ------------------------------------------------------------------------------------------ common

/// Builds a one-graph context with `build`, instantiates custom operations and evaluates it with the
/// SimpleEvaluator on `vals`. Returns (output type, output value).
fn run_graph(
    types: Vec<Type>,
    vals: Vec<Value>,
    build: impl FnOnce(&Graph, Vec<Node>) -> Result<Node>,
) -> Result<(Type, Value)> {
    let c = create_context()?;
    let g = c.create_graph()?;
    let mut ins = vec![];
    for t in types {
        ins.push(g.input(t)?);
    }
    let o = build(&g, ins)?;
    let t = o.get_type()?;
    o.set_as_output()?;
    g.finalize()?;
    g.set_as_main()?;
    c.finalize()?;
    let mc = run_instantiation_pass(c)?;
    let v = random_evaluate(mc.get_context().get_main_graph()?, vals)?;
    Ok((t, v))
}

/// Same graph, but compiled by the real compile_context (inputs owned by parties 0 and 1, result revealed to party 0)
/// and evaluated by one SimpleEvaluator seeded with `seed` (the protocol's internal randomness).
thread_local! {
    static COMPILED: std::cell::RefCell<HashMap<String, (Type, ciphercore_base::graphs::Context)>> = std::cell::RefCell::new(HashMap::new());
}

fn run_graph_compiled(
    types: Vec<Type>,
    vals: Vec<Value>,
    build: impl FnOnce(&Graph, Vec<Node>) -> Result<Node>,
    seed: u64,
    owners: Vec<ciphercore_base::mpc::mpc_compiler::IOStatus>,
    cache_key: String,
) -> Result<(Type, Value)> {
    use ciphercore_base::evaluators::simple_evaluator::SimpleEvaluator;
    use ciphercore_base::evaluators::Evaluator;
    use ciphercore_base::mpc::mpc_compiler::IOStatus;
    let mut s = [0u8; 16];
    s[..8].copy_from_slice(&seed.to_le_bytes());
    if let Some((t, ctx)) = COMPILED.with(|m| m.borrow().get(&cache_key).cloned()) {
        let mut ev = SimpleEvaluator::new(Some(s))?;
        let v = ev.evaluate_context(ctx, vals)?;
        return Ok((t, v));
    }
    let c = create_context()?;
    let g = c.create_graph()?;
    let mut ins = vec![];
    for t in types {
        ins.push(g.input(t)?);
    }
    let o = build(&g, ins)?;
    let t = o.get_type()?;
    o.set_as_output()?;
    g.finalize()?;
    g.set_as_main()?;
    c.finalize()?;
    let r = cc_conform::compile::compile(&c, &owners, &[IOStatus::Party(0)], "Simple")?;
    // the type the compiled graph actually returns (the judge compares tables column by column, by name)
    let t = r.mapped.get_context().get_main_graph()?.get_output_node()?.get_type()?;
    COMPILED.with(|m| m.borrow_mut().insert(cache_key, (t.clone(), r.mapped.get_context())));
    let mut ev = SimpleEvaluator::new(Some(s))?;
    let v = ev.evaluate_context(r.mapped.get_context(), vals)?;
    Ok((t, v))
}

/// Outcome class of a guarded execution: Ok(x) | Err("err"|"panic", message)
fn guarded<T>(f: impl FnOnce() -> Result<T> + std::panic::UnwindSafe) -> std::result::Result<T, (String, String)> {
    match catch(f) {
        Ok(Ok(x)) => Ok(x),
        Ok(Err(e)) => Err(("err".to_owned(), format!("{e}").chars().take(160).collect())),
        Err(p) => Err(("panic".to_owned(), p.chars().take(160).collect())),
    }
}

fn u128_of(j: &Json) -> u128 {
    if let Some(s) = j.as_str() {
        if let Some(n) = s.strip_prefix('-') {
            return n.parse::<u128>().unwrap().wrapping_neg();
        }
        return s.parse::<u128>().unwrap();
    }
    if let Some(i) = j.as_i64() {
        return i as i128 as u128;
    }
    j.as_u64().unwrap() as u128
}

fn shape_of(j: &Json) -> Vec<u64> {
    j.as_array().unwrap().iter().map(|x| x.as_u64().unwrap()).collect()
}

fn leaf(v: &Value, t: &Type) -> Result<Vec<u128>> {
    match export::value_to_tree(v, t)? {
        VTree::Leaf(xs) => Ok(xs),
        _ => Err(ciphercore_base::runtime_error!("leaf expected")),
    }
}

/// number for TLC: JSON int if the scalar type has at most 16 bits, decimal string otherwise
fn num(x: u128, st: &ScalarType) -> Json {
    if st.size_in_bits() <= 16 {
        json!(x as u64)
    } else {
        json!(x.to_string())
    }
}

// ------------------------------------------------------------------------------------------ ops

/// w-bit rows (LSB first) of the operands `xs`
fn to_bits(xs: &[u128], w: u64) -> Vec<u128> {
    let mut out = Vec::with_capacity(xs.len() * w as usize);
    for x in xs {
        for i in 0..w {
            out.push((x >> i) & 1);
        }
    }
    out
}

fn from_bits(bits: &[u128], w: u64) -> Vec<u128> {
    bits.chunks(w as usize).map(|r| r.iter().enumerate().fold(0u128, |a, (i, b)| a | (b << i))).collect()
}

/// operand rows for TLC: ints (bit pattern read as unsigned) for w <= 16, else bit sequences LSB first
fn enc_rows(xs: &[u128], w: u64) -> Json {
    if w <= 16 {
        json!(xs.iter().map(|x| *x as u64).collect::<Vec<_>>())
    } else {
        Json::Array(xs.iter().map(|x| json!((0..w).map(|i| ((x >> i) & 1) as u64).collect::<Vec<_>>())).collect())
    }
}

fn bit_arr_type(shape: &[u64], w: u64) -> Type {
    let mut s = shape.to_vec();
    s.push(w);
    array_type(s, BIT)
}

fn custom(op: &str, sg: bool, k: u64) -> CustomOperation {
    match op {
        "gt" => CustomOperation::new(GreaterThan { signed_comparison: sg }),
        "ge" => CustomOperation::new(GreaterThanEqualTo { signed_comparison: sg }),
        "lt" => CustomOperation::new(LessThan { signed_comparison: sg }),
        "le" => CustomOperation::new(LessThanEqualTo { signed_comparison: sg }),
        "eq" => CustomOperation::new(Equal {}),
        "ne" => CustomOperation::new(NotEqual {}),
        "min" => CustomOperation::new(Min { signed_comparison: sg }),
        "max" => CustomOperation::new(Max { signed_comparison: sg }),
        "add" => CustomOperation::new(BinaryAdd { overflow_bit: sg }),
        "clip" => CustomOperation::new(Clip2K { k }),
        "div" => CustomOperation::new(LongDivision { signed: sg }),
        "mux" => CustomOperation::new(Mux {}),
        _ => panic!("unknown op {op}"),
    }
}

fn ops_job(job: &Json) -> Json {
    let op = job["op"].as_str().unwrap().to_owned();
    if op == "mux" {
        return mux_job(job);
    }
    let sg = job["sg"].as_u64().unwrap_or(0) == 1;
    let w = job["w"].as_u64().unwrap();
    let k = job["k"].as_u64().unwrap_or(0);
    // width of the second operand (long division only: the divisor may have its own width)
    let wb = job["wb"].as_u64().unwrap_or(w);
    let unary = op == "clip";
    // operands
    let (a, b, sa, sb): (Vec<u128>, Vec<u128>, Vec<u64>, Vec<u64>) = if job["exh"].as_bool().unwrap_or(false) {
        let m = 1u128 << w;
        if unary {
            ((0..m).collect(), vec![], vec![m as u64], vec![])
        } else {
            let n = m * m;
            ((0..n).map(|i| i / m).collect(), (0..n).map(|i| i % m).collect(), vec![n as u64], vec![n as u64])
        }
    } else {
        let a: Vec<u128> = job["a"].as_array().unwrap().iter().map(u128_of).collect();
        let b: Vec<u128> = if unary { vec![] } else { job["b"].as_array().unwrap().iter().map(u128_of).collect() };
        let sa = if job["sa"].is_array() { shape_of(&job["sa"]) } else { vec![a.len() as u64] };
        let sb = if unary {
            vec![]
        } else if job["sb"].is_array() {
            shape_of(&job["sb"])
        } else {
            vec![b.len() as u64]
        };
        (a, b, sa, sb)
    };
    let mut rec = json!({"id": job["id"], "op": op, "sg": sg as u64, "w": w, "k": k, "sa": sa, "sb": sb,
        "exh": job["exh"].as_bool().unwrap_or(false) as u64,
        "enc": if w <= 16 { "int" } else { "bits" }, "a": enc_rows(&a, w), "b": enc_rows(&b, wb), "wb": wb});
    let (a2, b2, sa2, sb2, op2) = (a.clone(), b.clone(), sa.clone(), sb.clone(), op.clone());
    let res = guarded(move || {
        let mut types = vec![bit_arr_type(&sa2, w)];
        let mut vals = vec![Value::from_flattened_array(&to_bits(&a2, w), BIT)?];
        if !unary {
            types.push(bit_arr_type(&sb2, wb));
            vals.push(Value::from_flattened_array(&to_bits(&b2, wb), BIT)?);
        }
        let cop = custom(&op2, sg, k);
        run_graph(types, vals, move |g, ins| g.custom_op(cop, ins))
    });
    match res {
        Err((cls, msg)) => {
            rec["out"] = json!(cls);
            rec["msg"] = json!(msg);
            rec["so"] = json!([]);
            rec["r"] = json!([]);
            rec["r2"] = json!([]);
        }
        Ok((t, v)) => {
            rec["out"] = json!("ok");
            // result layout per operation
            let r: std::result::Result<(Vec<u64>, Json, Json), String> = (|| {
                match op.as_str() {
                    "gt" | "ge" | "lt" | "le" | "eq" | "ne" => {
                        let so = if t.is_scalar() { vec![] } else { t.get_shape() };
                        let xs = leaf(&v, &t).map_err(|e| e.to_string())?;
                        Ok((so, json!(xs.iter().map(|x| *x as u64).collect::<Vec<_>>()), json!([])))
                    }
                    "min" | "max" | "clip" => {
                        let mut so = t.get_shape();
                        let lw = so.pop().unwrap();
                        if lw != w {
                            return Err(format!("result width {lw}"));
                        }
                        let xs = leaf(&v, &t).map_err(|e| e.to_string())?;
                        Ok((so, enc_rows(&from_bits(&xs, w), w), json!([])))
                    }
                    "add" if !sg => {
                        let mut so = t.get_shape();
                        so.pop();
                        let xs = leaf(&v, &t).map_err(|e| e.to_string())?;
                        Ok((so, enc_rows(&from_bits(&xs, w), w), json!([])))
                    }
                    "add" | "div" => {
                        // tuple (sum, carry) resp. (quotient, remainder)
                        let ts = match &t {
                            Type::Tuple(ts) => ts.clone(),
                            _ => return Err("tuple expected".to_owned()),
                        };
                        let vs = v.to_vector().map_err(|e| e.to_string())?;
                        let mut so = ts[0].get_shape();
                        so.pop();
                        let x0 = leaf(&vs[0], &ts[0]).map_err(|e| e.to_string())?;
                        let x1 = leaf(&vs[1], &ts[1]).map_err(|e| e.to_string())?;
                        if op == "add" {
                            // carry: shape so + [1]
                            Ok((so, enc_rows(&from_bits(&x0, w), w), json!(x1.iter().map(|x| *x as u64).collect::<Vec<_>>())))
                        } else {
                            Ok((so, enc_rows(&from_bits(&x0, w), w), enc_rows(&from_bits(&x1, wb), wb)))
                        }
                    }
                    _ => Err("op".to_owned()),
                }
            })();
            match r {
                Ok((so, r1, r2)) => {
                    rec["so"] = json!(so);
                    rec["r"] = r1;
                    rec["r2"] = r2;
                }
                Err(m) => {
                    rec["out"] = json!("shape");
                    rec["msg"] = json!(m);
                    rec["so"] = json!([]);
                    rec["r"] = json!([]);
                    rec["r2"] = json!([]);
                }
            }
        }
    }
    rec
}

/// mux job: {id, op:"mux", st, sf, s1, s0 (full shapes), f, x1, x0 (flat values)}
fn mux_job(job: &Json) -> Json {
    let st = st_from(job["st"].as_str().unwrap());
    let (sf, s1, s0) = (shape_of(&job["sf"]), shape_of(&job["s1"]), shape_of(&job["s0"]));
    let m = st_mask(&st);
    let f: Vec<u128> = job["f"].as_array().unwrap().iter().map(u128_of).collect();
    let x1: Vec<u128> = job["x1"].as_array().unwrap().iter().map(|x| u128_of(x) & m).collect();
    let x0: Vec<u128> = job["x0"].as_array().unwrap().iter().map(|x| u128_of(x) & m).collect();
    let mut rec = json!({"id": job["id"], "op": "mux", "st": job["st"], "sf": sf, "s1": s1, "s0": s0,
        "f": f.iter().map(|x| *x as u64).collect::<Vec<_>>(),
        "x1": x1.iter().map(|x| num(*x, &st)).collect::<Vec<_>>(),
        "x0": x0.iter().map(|x| num(*x, &st)).collect::<Vec<_>>()});
    let ty = |s: &Vec<u64>, st: ScalarType| if s.is_empty() { scalar_type(st) } else { array_type(s.clone(), st) };
    let types = vec![ty(&sf, BIT), ty(&s1, st), ty(&s0, st)];
    let res = guarded(move || {
        let mk = |xs: &Vec<u128>, s: &Vec<u64>, st: ScalarType| -> Result<Value> {
            if s.is_empty() {
                Value::from_scalar(xs[0], st)
            } else {
                Value::from_flattened_array(xs, st)
            }
        };
        let vals = vec![mk(&f, &sf, BIT)?, mk(&x1, &s1, st)?, mk(&x0, &s0, st)?];
        run_graph(types, vals, |g, ins| g.custom_op(CustomOperation::new(Mux {}), ins))
    });
    match res {
        Err((cls, msg)) => {
            rec["out"] = json!(cls);
            rec["msg"] = json!(msg);
            rec["so"] = json!([]);
            rec["r"] = json!([]);
        }
        Ok((t, v)) => {
            rec["out"] = json!("ok");
            rec["so"] = json!(if t.is_scalar() { vec![] } else { t.get_shape() });
            rec["rst"] = json!(export::st_name(&t.get_scalar_type()));
            let xs = leaf(&v, &t).unwrap();
            rec["r"] = json!(xs.iter().map(|x| num(*x, &st)).collect::<Vec<_>>());
        }
    }
    rec
}

fn cmd_ops(args: &[String]) {
    let jobs = read_ndjson(&args[0]);
    let mut out = std::io::BufWriter::new(std::fs::File::create(&args[1]).unwrap());
    let timing = std::env::var("BITREL_TIMING").is_ok();
    for job in jobs.iter() {
        let t0 = std::time::Instant::now();
        writeln!(out, "{}", ops_job(job)).unwrap();
        if timing {
            eprintln!("job {} {} w={} sg={} exh={}: {} ms", job["id"], job["op"], job["w"], job["sg"], job["exh"], t0.elapsed().as_millis());
        }
    }
}

// ------------------------------------------------------------------------------------------ tables

/// A column as the jobs describe it: {name, st, shape (full, first dim = rows), vals (flat), mask? (per row)}
struct Col {
    name: String,
    st: ScalarType,
    shape: Vec<u64>,
    vals: Vec<u128>,
    mask: Option<Vec<u128>>,
}

fn col_of(j: &Json) -> Col {
    let st = st_from(j["st"].as_str().unwrap());
    let m = st_mask(&st);
    Col {
        name: j["name"].as_str().unwrap().to_owned(),
        st,
        shape: shape_of(&j["shape"]),
        vals: j["vals"].as_array().unwrap().iter().map(|x| u128_of(x) & m).collect(),
        mask: if j["mask"].is_array() { Some(j["mask"].as_array().unwrap().iter().map(u128_of).collect()) } else { None },
    }
}

fn real_name(n: &str) -> String {
    if n == "null" {
        NULL_HEADER.to_owned()
    } else {
        n.to_owned()
    }
}

fn shown_name(n: &str) -> String {
    if n == NULL_HEADER {
        "null".to_owned()
    } else {
        n.to_owned()
    }
}

fn col_type(c: &Col) -> Type {
    let d = array_type(c.shape.clone(), c.st);
    if c.mask.is_some() {
        tuple_type(vec![array_type(vec![c.shape[0]], BIT), d])
    } else {
        d
    }
}

fn col_value(c: &Col) -> Result<Value> {
    let d = Value::from_flattened_array(&c.vals, c.st)?;
    if let Some(m) = &c.mask {
        Ok(Value::from_vector(vec![Value::from_flattened_array(m, BIT)?, d]))
    } else {
        Ok(d)
    }
}

fn table_type(cols: &[Col]) -> Type {
    named_tuple_type(cols.iter().map(|c| (real_name(&c.name), col_type(c))).collect())
}

fn table_value(cols: &[Col]) -> Result<Value> {
    Ok(Value::from_vector(cols.iter().map(col_value).collect::<Result<Vec<_>>>()?))
}

/// rows of a data array for TLC: list of rows, each a flat list of numbers
fn rows_json(xs: &[u128], nrows: u64, st: &ScalarType) -> Json {
    if nrows == 0 || xs.is_empty() {
        return json!([]);
    }
    let rs = xs.len() / nrows as usize;
    Json::Array(xs.chunks(rs).map(|r| Json::Array(r.iter().map(|x| num(*x, st)).collect())).collect())
}

/// a named tuple of (possibly masked) columns -> {names:[..], cols:{name:{st, rs, z, mask:[..], rows:[[..]]}}}
fn table_json(t: &Type, v: &Value) -> Result<Json> {
    let nts = match t {
        Type::NamedTuple(nts) => nts.clone(),
        _ => return Err(ciphercore_base::runtime_error!("named tuple expected")),
    };
    let vs = v.to_vector()?;
    let mut names = vec![];
    let mut cols = serde_json::Map::new();
    for ((name, ct), cv) in nts.iter().zip(vs.iter()) {
        let nm = shown_name(name);
        names.push(nm.clone());
        let (mask, dt, dv): (Json, Type, Value) = match &**ct {
            Type::Tuple(ts) => {
                let pv = cv.to_vector()?;
                let m = leaf(&pv[0], &ts[0])?;
                (json!(m.iter().map(|x| *x as u64).collect::<Vec<_>>()), (*ts[1]).clone(), pv[1].clone())
            }
            other => (json!([]), other.clone(), cv.clone()),
        };
        let st = dt.get_scalar_type();
        let sh = dt.get_shape();
        let xs = leaf(&dv, &dt)?;
        cols.insert(
            nm,
            json!({"st": export::st_name(&st), "n": sh[0], "rs": sh[1..].to_vec(), "z": num(0, &st),
                   "masked": matches!(&**ct, Type::Tuple(_)) as u64, "mask": mask, "rows": rows_json(&xs, sh[0], &st)}),
        );
    }
    Ok(json!({"names": names, "cols": cols}))
}

fn input_table_json(cols: &[Col]) -> Json {
    let t = table_type(cols);
    let v = table_value(cols).unwrap();
    table_json(&t, &v).unwrap()
}

fn outcome_json(res: std::result::Result<(Type, Value), (String, String)>) -> Json {
    match res {
        Ok((t, v)) => match table_json(&t, &v) {
            Ok(mut j) => {
                j["out"] = json!("ok");
                j
            }
            Err(e) => json!({"out": "shape", "msg": e.to_string(), "names": [], "cols": {}}),
        },
        Err((cls, msg)) => json!({"out": cls, "msg": msg, "names": [], "cols": {}}),
    }
}

/// sort: {id, kind:"sort"|"isort", cols:[...]} ; the key column is named "key"
fn sort_job(job: &Json) -> Json {
    let cols: Vec<Col> = job["cols"].as_array().unwrap().iter().map(col_of).collect();
    let integer = job["kind"].as_str().unwrap() == "isort";
    let mut rec = json!({"id": job["id"], "kind": job["kind"], "grp": job["grp"], "in": input_table_json(&cols)});
    if integer {
        // the integer keys once more as bit strings (LSB first), so that TLC can order 64/128-bit keys numerically
        let kc = cols.iter().find(|c| c.name == "key").expect("key column");
        let w = kc.st.size_in_bits();
        rec["sg"] = json!(kc.st.is_signed() as u64);
        rec["keybits"] = Json::Array(kc.vals.iter().map(|x| json!((0..w).map(|i| ((x >> i) & 1) as u64).collect::<Vec<_>>())).collect());
    }
    let t = table_type(&cols);
    let compiled = job.get("compiled").and_then(|x| x.as_u64());
    rec["compiled"] = json!(compiled.is_some() as u64);
    let job2 = job.clone();
    let res = guarded(move || match compiled {
        Some(seed) => run_sort_compiled(&cols, integer, seed, &job2),
        None => {
            let v = table_value(&cols)?;
            run_graph(vec![t], vec![v], move |g, ins| {
                if integer {
                    g.custom_op(CustomOperation::new(SortByIntegerKey { key: "key".to_owned() }), ins)
                } else {
                    g.sort(ins[0].clone(), "key".to_owned())
                }
            })
        }
    });
    rec["res"] = outcome_json(res);
    rec
}

thread_local! {
    static SORT_COMPILED: std::cell::RefCell<HashMap<String, (Type, ciphercore_base::graphs::Context)>> = std::cell::RefCell::new(HashMap::new());
}

/// The compiled (secure) sort: one graph input per column (owner per column = job["owners"], default party 0), the
/// table is assembled in the graph and sorted; compiled by the real compile_context (inline mode job["mode"], default
/// Simple; result revealed to job["outs"], default party 0) and evaluated by one SimpleEvaluator seeded with `seed`
/// (the protocol's internal randomness).  The compiled context is cached per (column types, owners, outs, mode).
fn run_sort_compiled(cols: &[Col], integer: bool, seed: u64, job: &Json) -> Result<(Type, Value)> {
    use ciphercore_base::evaluators::simple_evaluator::SimpleEvaluator;
    use ciphercore_base::evaluators::Evaluator;
    use ciphercore_base::mpc::mpc_compiler::IOStatus;
    let statuses = |f: &str, n: usize| -> Vec<IOStatus> {
        match job.get(f).and_then(|x| x.as_array()) {
            Some(a) => a.iter().map(cc_conform::compile::io_status).collect(),
            None => vec![IOStatus::Party(0); n],
        }
    };
    let owners = statuses("owners", cols.len());
    let outs = statuses("outs", 1);
    let mode = job.get("mode").and_then(|x| x.as_str()).unwrap_or("Simple").to_owned();
    let sig: Vec<String> = cols.iter().map(|c| format!("{}:{}:{:?}", c.name, export::st_name(&c.st), c.shape)).collect();
    let ckey = format!("{}|{:?}|{}|{}|{}", integer, sig, job["owners"], job["outs"], mode);
    let vals = cols.iter().map(col_value).collect::<Result<Vec<_>>>()?;
    let mut s = [0u8; 16];
    s[..8].copy_from_slice(&seed.to_le_bytes());
    let cached = SORT_COMPILED.with(|m| m.borrow().get(&ckey).cloned());
    let (t, ctx) = match cached {
        Some(x) => x,
        None => {
            let c = create_context()?;
            let g = c.create_graph()?;
            let mut named = vec![];
            for col in cols {
                named.push((real_name(&col.name), g.input(col_type(col))?));
            }
            let tab = g.create_named_tuple(named)?;
            let o = if integer {
                g.custom_op(CustomOperation::new(SortByIntegerKey { key: "key".to_owned() }), vec![tab])?
            } else {
                g.sort(tab, "key".to_owned())?
            };
            o.set_as_output()?;
            g.finalize()?;
            g.set_as_main()?;
            c.finalize()?;
            let r = cc_conform::compile::compile(&c, &owners, &outs, &mode)?;
            let ctx = r.mapped.get_context();
            // the type the compiled graph actually returns (the judge compares it with the input table's type)
            let t = ctx.get_main_graph()?.get_output_node()?.get_type()?;
            SORT_COMPILED.with(|m| m.borrow_mut().insert(ckey, (t.clone(), ctx.clone())));
            (t, ctx)
        }
    };
    let mut ev = SimpleEvaluator::new(Some(s))?;
    let v = ev.evaluate_context(ctx, vals)?;
    Ok((t, v))
}

fn arr_outcome(res: std::result::Result<(Type, Value), (String, String)>, ints: bool) -> Json {
    match res {
        Ok((t, v)) => {
            let st = if ints { ciphercore_base::data_types::UINT8 } else { t.get_scalar_type() };
            let sh = t.get_shape();
            match leaf(&v, &t) {
                Ok(xs) => json!({"out": "ok", "rows": rows_json(&xs, sh[0], &st)}),
                Err(e) => json!({"out": "shape", "msg": e.to_string(), "rows": []}),
            }
        }
        Err((cls, msg)) => json!({"out": cls, "msg": msg, "rows": []}),
    }
}

/// perm: {id, kind:"perm", pst, p:[..], a: column}
fn perm_job(job: &Json) -> Json {
    let a = col_of(&job["a"]);
    let pst = st_from(job["pst"].as_str().unwrap());
    let p: Vec<u128> = job["p"].as_array().unwrap().iter().map(u128_of).collect();
    let n = p.len() as u64;
    let at = array_type(a.shape.clone(), a.st);
    let pt = array_type(vec![n], pst);
    let mut rec = json!({"id": job["id"], "kind": "perm", "grp": job["grp"], "n": n,
        "p": p.iter().map(|x| *x as u64).collect::<Vec<_>>(),
        "st": job["a"]["st"], "a": rows_json(&a.vals, a.shape[0], &a.st)});
    let run = |which: &'static str| {
        let (at, pt, av, pv) = (at.clone(), pt.clone(), a.vals.clone(), p.clone());
        let (ast, pst2) = (a.st, pst);
        guarded(move || {
            let vals = vec![Value::from_flattened_array(&av, ast)?, Value::from_flattened_array(&pv, pst2)?];
            run_graph(vec![at, pt], vals, move |g, ins| {
                let (a, p) = (ins[0].clone(), ins[1].clone());
                match which {
                    "ap" => g.apply_permutation(a, p),
                    "inv" => g.inverse_permutation(p),
                    "back" => {
                        let ap = g.apply_permutation(a, p.clone())?;
                        g.apply_permutation(ap, g.inverse_permutation(p)?)
                    }
                    "back2" => {
                        let ap = g.apply_permutation(a, p.clone())?;
                        g.apply_inverse_permutation(ap, p)
                    }
                    "iap" => g.apply_inverse_permutation(a, p),
                    _ => unreachable!(),
                }
            })
        })
    };
    for which in ["ap", "inv", "back", "back2", "iap"] {
        rec[which] = arr_outcome(run(which), which == "inv");
    }
    rec
}

fn join_type_of(s: &str) -> JoinType {
    match s {
        "Inner" => JoinType::Inner,
        "Left" => JoinType::Left,
        "Union" => JoinType::Union,
        _ => JoinType::Full,
    }
}

/// join: {id, kind:"join", masked, headers:[[h0,h1]..], A:[cols], B:[cols]} -> results of the four join types
fn join_job(job: &Json) -> Json {
    let masked = job["masked"].as_u64().unwrap_or(0) == 1;
    let a: Vec<Col> = job["A"].as_array().unwrap().iter().map(col_of).collect();
    let b: Vec<Col> = job["B"].as_array().unwrap().iter().map(col_of).collect();
    let headers: Vec<(String, String)> = job["headers"]
        .as_array()
        .unwrap()
        .iter()
        .map(|p| (p[0].as_str().unwrap().to_owned(), p[1].as_str().unwrap().to_owned()))
        .collect();
    let compiled = job.get("compiled").and_then(|x| x.as_u64());
    let mut rec = json!({"id": job["id"], "kind": "join", "grp": job["grp"], "masked": masked as u64,
        "headers": job["headers"], "A": input_table_json(&a), "B": input_table_json(&b),
        "compiled": if compiled.is_some() { 1 } else { 0 }});
    let (ta, tb) = (table_type(&a), table_type(&b));
    let mut res = serde_json::Map::new();
    for jt in ["Inner", "Left", "Union", "Full"] {
        let (ta, tb, hs) = (ta.clone(), tb.clone(), headers.clone());
        let (va, vb) = (table_value(&a), table_value(&b));
        let owners_spec = job.get("owners").cloned();
        let ckey = format!("{}|{}|{}|{}|{}|{}", jt, masked, job["headers"], job["A"], job["B"], job.get("owners").cloned().unwrap_or(Json::Null));
        let r = guarded(move || {
            let hm: HashMap<String, String> = hs.into_iter().collect();
            let build = move |g: &Graph, ins: Vec<Node>| {
                if masked {
                    g.join_with_column_masks(ins[0].clone(), ins[1].clone(), join_type_of(jt), hm)
                } else {
                    g.join(ins[0].clone(), ins[1].clone(), join_type_of(jt), hm)
                }
            };
            match compiled {
                None => run_graph(vec![ta, tb], vec![va?, vb?], build),
                Some(seed) => {
                    let owners = match owners_spec {
                        Some(o) => o.as_array().unwrap().iter().map(cc_conform::compile::io_status).collect(),
                        None => vec![
                            ciphercore_base::mpc::mpc_compiler::IOStatus::Party(0),
                            ciphercore_base::mpc::mpc_compiler::IOStatus::Party(1),
                        ],
                    };
                    run_graph_compiled(vec![ta, tb], vec![va?, vb?], build, seed, owners, ckey)
                }
            }
        });
        res.insert(jt.to_owned(), outcome_json(r));
    }
    rec["res"] = Json::Object(res);
    rec
}

fn cmd_rel(args: &[String]) {
    let jobs = read_ndjson(&args[0]);
    let mut out = std::io::BufWriter::new(std::fs::File::create(&args[1]).unwrap());
    for job in jobs.iter() {
        let rec = match job["kind"].as_str().unwrap() {
            "sort" | "isort" => sort_job(job),
            "perm" => perm_job(job),
            "join" => join_job(job),
            "claims" => job.clone(),
            k => panic!("unknown kind {k}"),
        };
        writeln!(out, "{}", rec).unwrap();
    }
}

fn main() {
    quiet_panics();
    let args: Vec<String> = std::env::args().skip(1).collect();
    if args.len() < 3 {
        eprintln!("usage: bitrel ops|rel <jobs.ndjson> <out.ndjson>");
        std::process::exit(2);
    }
    match args[0].as_str() {
        "ops" => cmd_ops(&args[1..]),
        "rel" => cmd_rel(&args[1..]),
        c => {
            eprintln!("unknown command {c}");
            std::process::exit(2);
        }
    }
}
