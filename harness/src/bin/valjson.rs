//! Harness binary of C13, JSON half: the human-readable (serde_json) form of TypedValue.
//! It only executes the real library and records what it did; every comparison is made by TLC
//! (spec/CodecTrace.tla, record kind "js").
//!
//!   valjson <out.ndjson> <seed> <per_level> [<cases.ndjson>]
//!
//! Types: (a) every "jt" case of the corpus printed by spec/Codec.tla (arrays of all scalar types over all shapes
//! of rank <= 3, containers over non-square arrays), (b) a seeded random type grammar of depth <= 3.
//! For every typed value the record holds
//!   t, v / vl    the type and the abstract value before (decimal strings / byte chunks), `intended` = what was put in
//!   toks, nums   the text produced by serde_json::to_string, tokenized by a GENERIC JSON reader
//!                (serde_json::Value, not the TypedValue deserializer): structure tokens and the numbers in order
//!   t2, v2, eq   what serde_json::from_str::<TypedValue> made of the text
use cc_conform::export::{self, Num, VTree};
use cc_conform::{catch, quiet_panics, read_ndjson};
use ciphercore_base::data_types::*;
use ciphercore_base::typed_value::TypedValue;
use rand::rngs::StdRng;
use rand::{Rng, SeedableRng};
use serde_json::{json, Value as Json};
use std::io::Write;
use std::panic::AssertUnwindSafe;

fn boundary_residues(st: ScalarType, rng: &mut StdRng) -> Vec<u128> {
    let w = st.size_in_bits() as u32;
    if w == 1 {
        return vec![0, 1, 1, 0, 1];
    }
    let mask = export::st_mask(&st);
    let mut v = vec![0, 1, mask, 1u128 << (w - 1), (1u128 << (w - 1)) - 1, (1u128 << (w - 1)) + 1, mask - 1, 0x80, 0xff, 0x7f];
    if w > 8 {
        v.extend([0x8000u128 & mask, 0xffff & mask, 0x0100]);
    }
    if w > 32 {
        v.extend([1u128 << 31, 0xffff_ffff, 1u128 << 32]);
    }
    if w > 64 {
        v.extend([1u128 << 63, u64::MAX as u128, 1u128 << 64, (1u128 << 64) + 1]);
    }
    for _ in 0..4 {
        v.push(rng.gen::<u128>() & mask);
    }
    v.into_iter().map(|x| x & mask).collect()
}

/// style 0: zeros, 1: all ones, 2: boundary residues, 3: random, 4: position-dependent (element i holds i+1,
/// negated at odd positions of signed types; bits: 1 at every third position) so that any reordering shows
fn random_tree(t: &Type, rng: &mut StdRng, style: u32) -> VTree {
    match t {
        Type::Scalar(st) | Type::Array(_, st) => {
            let n = match t {
                Type::Scalar(_) => 1,
                Type::Array(sh, _) => sh.iter().product::<u64>() as usize,
                _ => unreachable!(),
            };
            let b = boundary_residues(*st, rng);
            let mask = export::st_mask(st);
            VTree::Leaf(
                (0..n)
                    .map(|i| match style {
                        0 => 0,
                        1 => mask,
                        2 => b[(i + rng.gen_range(0..b.len())) % b.len()],
                        4 => {
                            if mask == 1 {
                                (i % 3 == 0) as u128
                            } else if st.is_signed() && i % 2 == 1 {
                                (i as u128 + 1).wrapping_neg() & mask
                            } else {
                                (i as u128 + 1) & mask
                            }
                        }
                        _ => rng.gen::<u128>() & mask,
                    })
                    .collect(),
            )
        }
        Type::Tuple(ts) => VTree::Node(ts.iter().map(|x| random_tree(x, rng, style)).collect()),
        Type::NamedTuple(ts) => VTree::Node(ts.iter().map(|x| random_tree(&x.1, rng, style)).collect()),
        Type::Vector(n, e) => VTree::Node((0..*n).map(|_| random_tree(e, rng, style)).collect()),
    }
}

fn random_shape(rng: &mut StdRng) -> Vec<u64> {
    let rank = rng.gen_range(1..=3usize);
    let max = [9u64, 4, 3][rank - 1];
    (0..rank).map(|_| rng.gen_range(1..=max)).collect()
}
fn leaf_types(rng: &mut StdRng) -> Vec<Type> {
    let mut v = vec![];
    for st in export::ALL_ST {
        v.push(scalar_type(st));
        v.push(array_type(vec![3], st));
        v.push(array_type(vec![2, 2], st));
        v.push(array_type(vec![1], st));
        v.push(array_type(random_shape(rng), st));
        v.push(array_type(random_shape(rng), st));
    }
    v.push(array_type(vec![9], BIT));
    v.push(array_type(vec![17], BIT));
    v.push(array_type(vec![3, 3], BIT));
    v
}
/// Type grammar of depth <= 3: leaves, containers of leaves, containers of containers.
fn json_types(rng: &mut StdRng, per_level: usize) -> Vec<Type> {
    let l1 = leaf_types(rng);
    let pick1 = |rng: &mut StdRng| l1[rng.gen_range(0..l1.len())].clone();
    let mut l2 = vec![tuple_type(vec![]), vector_type(0, tuple_type(vec![]))];
    for i in 0..per_level {
        let a = pick1(rng);
        let b = pick1(rng);
        l2.push(match i % 5 {
            0 => tuple_type(vec![a, b]),
            1 => named_tuple_type(vec![("a".into(), a), ("b b".into(), b)]),
            2 => vector_type(2, a),
            3 => tuple_type(vec![a]),
            _ => vector_type(1, b),
        });
    }
    let mut l3 = vec![];
    for i in 0..per_level {
        let a = l2[rng.gen_range(0..l2.len())].clone();
        let b = l2[rng.gen_range(0..l2.len())].clone();
        let c = pick1(rng);
        l3.push(match i % 5 {
            0 => tuple_type(vec![a, c, b]),
            1 => named_tuple_type(vec![("x".into(), a), ("y".into(), c)]),
            2 => vector_type(2, a),
            3 => tuple_type(vec![vector_type(2, a), b]),
            _ => named_tuple_type(vec![("k".into(), c), ("v".into(), vector_type(3, b))]),
        });
    }
    let mut all = l1;
    all.extend(l2);
    all.extend(l3);
    all
}

/// (type, value as decimal strings, value as byte chunks) read through the typed readers of the library
fn abstract_tv(tv: &TypedValue) -> (Json, Json, Json) {
    let t = tv.t.clone();
    match export::value_to_tree(&tv.value, &t) {
        Ok(tr) => (export::type_json(&t), export::tree_json(&tr, &t, Num::Str), export::tree_json(&tr, &t, Num::Limbs)),
        Err(_) => (export::type_json(&t), json!("unreadable"), json!("unreadable")),
    }
}

/// minimal little-endian base-256 limbs (at least one)
fn mag_limbs(mut x: u128) -> Vec<u64> {
    let mut v = vec![];
    loop {
        v.push((x & 0xff) as u64);
        x >>= 8;
        if x == 0 {
            break;
        }
    }
    v
}
/// Tokens of a generic JSON document: "{" "}" "[" "]", "k:<key>" (keys in alphabetical order), "s:<string>",
/// "#" for an integer literal (listed in `nums` as sign + magnitude), "?<literal>" for anything else.
fn tokenize(j: &Json, toks: &mut Vec<String>, nums: &mut Vec<Json>) {
    match j {
        Json::Object(m) => {
            toks.push("{".into());
            let mut keys: Vec<&String> = m.keys().collect();
            keys.sort();
            for k in keys {
                toks.push(format!("k:{k}"));
                tokenize(&m[k.as_str()], toks, nums);
            }
            toks.push("}".into());
        }
        Json::Array(a) => {
            toks.push("[".into());
            for x in a {
                tokenize(x, toks, nums);
            }
            toks.push("]".into());
        }
        Json::String(s) => toks.push(format!("s:{s}")),
        Json::Number(n) => {
            let lit = n.to_string();
            let parsed = if let Some(m) = lit.strip_prefix('-') {
                m.parse::<u128>().ok().map(|x| (x != 0, x))
            } else {
                lit.parse::<u128>().ok().map(|x| (false, x))
            };
            match parsed {
                Some((neg, mag)) => {
                    toks.push("#".into());
                    nums.push(json!({"neg": neg, "mag": mag_limbs(mag)}));
                }
                None => toks.push(format!("?{lit}")),
            }
        }
        Json::Bool(b) => toks.push(format!("?{b}")),
        Json::Null => toks.push("?null".into()),
    }
}

fn run_one(out: &mut impl Write, t: &Type, rng: &mut StdRng, style: u32, src: &str) {
    let tree = random_tree(t, rng, style);
    let v = export::tree_to_value(&tree, t).expect("tree_to_value");
    let tv = match TypedValue::new(t.clone(), v) {
        Ok(x) => x,
        Err(e) => panic!("harness built an ill-typed value: {e}"),
    };
    let (t1, v1, vl) = abstract_tv(&tv);
    let intended = export::tree_json(&tree, t, Num::Str);
    let ser = catch(AssertUnwindSafe(|| serde_json::to_string(&tv)));
    if v1.is_string() {
        // the typed readers of the library refuse the value that was just built
        writeln!(out, "{}", json!({"kind":"js","src":src,"style":style,"t":t1,"res":"unreadable"})).unwrap();
        return;
    }
    let mut rec = json!({"kind":"js","src":src,"style":style,"t":t1,"v":v1,"vl":vl,"intended":intended,"res":"ok","t2":t1,"v2":"none",
        "eq":false,"len":0,"txt":"","hasform":false,"toks":[],"nums":[]});
    match ser {
        Ok(Ok(s)) => {
            rec["len"] = json!(s.len());
            if s.len() <= 160 {
                rec["txt"] = json!(s);
            }
            let mut generic_ok = false;
            if let Ok(doc) = serde_json::from_str::<Json>(&s) {
                let mut toks = vec![];
                let mut nums = vec![];
                tokenize(&doc, &mut toks, &mut nums);
                rec["hasform"] = json!(true);
                rec["toks"] = json!(toks);
                rec["nums"] = json!(nums);
                generic_ok = true;
            }
            match catch(AssertUnwindSafe(|| serde_json::from_str::<TypedValue>(&s))) {
                Ok(Ok(tv2)) => {
                    let (t2, v2, _) = abstract_tv(&tv2);
                    rec["t2"] = t2;
                    rec["v2"] = v2;
                    rec["eq"] = json!(tv == tv2);
                }
                Ok(Err(_)) => rec["res"] = json!("de_err"),
                Err(_) => rec["res"] = json!("de_panic"),
            }
            if !generic_ok {
                rec["res"] = json!("not_json");
            }
        }
        Ok(Err(_)) => rec["res"] = json!("ser_err"),
        Err(_) => rec["res"] = json!("ser_panic"),
    }
    writeln!(out, "{}", rec).unwrap();
}

fn main() {
    quiet_panics();
    let args: Vec<String> = std::env::args().skip(1).collect();
    if args.len() < 3 {
        eprintln!("usage: valjson <out.ndjson> <seed> <per_level> [<cases.ndjson>]");
        std::process::exit(2);
    }
    let mut out = std::io::BufWriter::new(std::fs::File::create(&args[0]).unwrap());
    let seed: u64 = args[1].parse().unwrap();
    let per_level: usize = args[2].parse().unwrap();
    let mut rng = StdRng::seed_from_u64(seed ^ 0x13_5051);
    // (a) the types enumerated by the specification
    if let Some(p) = args.get(3) {
        for c in read_ndjson(p).iter().filter(|c| c["kind"] == "jt") {
            let t = export::type_from_json(&c["t"]);
            for style in [2u32, 3, 4] {
                run_one(&mut out, &t, &mut rng, style, "jt");
            }
        }
    }
    // (b) the seeded random grammar
    for t in json_types(&mut rng, per_level) {
        for style in 0..5u32 {
            run_one(&mut out, &t, &mut rng, style, "rnd");
        }
    }
}
