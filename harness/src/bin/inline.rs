//! Conformance harness of the properties C07 (inlining) and C08 (custom-operation instantiation).
//!
//!   inline c07 <cases.ndjson> <out.ndjson>
//!       every case {id, kind, n, mode, call, iter, exh_bits, samples, export_nodes, seed}: builds the
//!       context, runs the REAL `inline_operations`, evaluates the original context (native Call/Iterate
//!       of the evaluator) and the inlined context on the same inputs, exports both contexts.
//!   inline c08-dump <out.ndjson>      name / serde form / pairwise equality of the library custom operations
//!   inline c08-run <cases.ndjson> <out.ndjson>   contexts mixing custom operations through run_instantiation_pass
//!
//! The harness records and exports; it never judges (TLC does, see spec/InlinerTrace.tla, spec/InstantiationTrace.tla).
use cc_conform::export::*;
use cc_conform::{catch, compile, prog, quiet_panics, read_ndjson};
use ciphercore_base::custom_ops::{run_instantiation_pass, CustomOperation, Not, Or};
use ciphercore_base::data_types::*;
use ciphercore_base::data_values::Value;
use ciphercore_base::errors::Result;
use ciphercore_base::evaluators::evaluate_simple_evaluator;
use ciphercore_base::graphs::*;
use ciphercore_base::inline::inline_ops::{inline_operations, InlineConfig};
use ciphercore_base::runtime_error;
use rand::rngs::StdRng;
use rand::{Rng, SeedableRng};
use serde_json::{json, Map, Value as Json};
use std::collections::BTreeMap;
use std::io::Write;

// ------------------------------------------------------------------------------------------------ C07 bodies

fn bits(sh: &[u64]) -> Type {
    array_type(sh.to_vec(), BIT)
}
fn sbit() -> Type {
    scalar_type(BIT)
}

/// array of scalars -> rank-1 array
fn pack(g: &Graph, xs: Vec<Node>) -> Result<Node> {
    let t = xs[0].get_type()?;
    g.create_vector(t, xs)?.vector_to_array()
}

fn finish_body(g: &Graph, state: Node, out: Node, ann: Option<GraphAnnotation>) -> Result<()> {
    g.set_output_node(g.create_tuple(vec![state, out])?)?;
    if let Some(a) = ann {
        g.add_annotation(a)?;
    }
    g.finalize()?;
    Ok(())
}

/// K-bit transition used by the general / small-state bodies (K = 2, 3, 4): not associative, not linear.
fn mix(g: &Graph, s: &[Node], x: &[Node]) -> Result<Vec<Node>> {
    let k = s.len();
    Ok(match k {
        2 => vec![s[1].add(x[0].clone())?, s[0].multiply(x[1].clone())?.add(s[1].clone())?],
        3 => vec![
            s[1].add(x[0].clone())?,
            s[0].multiply(s[2].clone())?.add(x[1].clone())?,
            s[0].add(s[1].multiply(x[2].clone())?)?,
        ],
        4 => vec![
            s[1].add(x[0].clone())?,
            s[0].multiply(s[2].clone())?.add(x[1].clone())?,
            s[3].add(s[0].multiply(x[2].clone())?)?,
            s[1].multiply(s[2].clone())?.add(x[3].clone())?.add(g.ones(sbit())?)?,
        ],
        _ => return Err(runtime_error!("mix: K")),
    })
}

struct Built {
    ctx: Context,
    /// state type and input element type of the main Iterate (main graph inputs are (state, Vector(n, elem)))
    random: bool,
}

/// Body graph of kind `kind` inside context `c`; returns (graph, state type, element type).
fn body(c: &Context, kind: &str) -> Result<(Graph, Type, Type)> {
    let g = c.create_graph()?;
    let empty = || g.create_tuple(vec![]);
    match kind {
        "empty" | "random_empty" => {
            let st_t = tuple_type(vec![]);
            let x_t = bits(&[2]);
            let st = g.input(st_t.clone())?;
            let x = g.input(x_t.clone())?;
            let m = if kind == "empty" { x.nop()? } else { x.add(g.random(bits(&[2]))?.nop()?)? };
            let a = m.get(vec![0])?;
            let b = m.get(vec![1])?;
            let o = a.multiply(b)?.add(a)?;
            finish_body(&g, st, o, None)?;
            Ok((g, st_t, x_t))
        }
        "assoc_nc" | "assoc_nc_eo" => {
            let t = bits(&[2, 2]);
            let st = g.input(t.clone())?;
            let x = g.input(t.clone())?;
            let p = st.matmul(x.clone())?.nop()?;
            let o = if kind == "assoc_nc" { x.matmul(st)? } else { empty()? };
            finish_body(&g, p, o, Some(GraphAnnotation::AssociativeOperation))?;
            Ok((g, t.clone(), t))
        }
        "assoc_c" => {
            let t = scalar_type(UINT8);
            let st = g.input(t.clone())?;
            let x = g.input(t.clone())?;
            let p = st.add(x.clone())?.nop()?;
            let o = st.multiply(x)?;
            finish_body(&g, p, o, Some(GraphAnnotation::AssociativeOperation))?;
            Ok((g, t.clone(), t))
        }
        "general" | "small2" | "small2_eo" | "small3" | "small4" | "random" => {
            let k: u64 = match kind {
                "small3" => 3,
                "small4" => 4,
                _ => 2,
            };
            let t = bits(&[k]);
            let st = g.input(t.clone())?;
            let x = g.input(t.clone())?;
            let s: Vec<Node> = (0..k).map(|i| st.get(vec![i])).collect::<Result<_>>()?;
            let xs: Vec<Node> = (0..k).map(|i| x.get(vec![i])).collect::<Result<_>>()?;
            let mut ns = pack(&g, mix(&g, &s, &xs)?)?;
            if kind == "random" {
                ns = ns.add(x.multiply(g.random(t.clone())?.nop()?)?)?;
            } else {
                ns = ns.nop()?;
            }
            let o = if kind == "small2_eo" { empty()? } else { ns.multiply(x.clone())?.add(st)? };
            let ann = if kind.starts_with("small") { Some(GraphAnnotation::SmallState) } else { None };
            finish_body(&g, ns, o, ann)?;
            Ok((g, t.clone(), t))
        }
        "small2_b" | "small1_k1" => {
            // batched state (batch, K): rows independent
            let (b, k) = if kind == "small2_b" { (2u64, 2u64) } else { (2, 1) };
            let t = bits(&[b, k]);
            let st = g.input(t.clone())?;
            let x = g.input(t.clone())?;
            let col = |a: &Node, i: u64| a.get_slice(vec![SliceElement::Ellipsis, SliceElement::SingleIndex(i as i64)]);
            let s: Vec<Node> = (0..k).map(|i| col(&st, i)).collect::<Result<_>>()?;
            let xs: Vec<Node> = (0..k).map(|i| col(&x, i)).collect::<Result<_>>()?;
            let cols = if k == 2 { mix(&g, &s, &xs)? } else { vec![s[0].multiply(xs[0].clone())?.add(g.ones(sbit())?)?] };
            let ns = g.create_vector(cols[0].get_type()?, cols)?.vector_to_array()?.permute_axes(vec![1, 0])?.nop()?;
            let o = ns.add(x)?;
            finish_body(&g, ns, o, Some(GraphAnnotation::SmallState))?;
            Ok((g, t.clone(), t))
        }
        "onebit" | "onebit_eo" => {
            let st_t = sbit();
            let x_t = bits(&[2]);
            let st = g.input(st_t.clone())?;
            let x = g.input(x_t.clone())?;
            let x0 = x.get(vec![0])?;
            let x1 = x.get(vec![1])?;
            let ns = st.multiply(x0.clone())?.add(x1)?.nop()?;
            let o = if kind == "onebit" { st.add(x0)? } else { empty()? };
            finish_body(&g, ns, o, Some(GraphAnnotation::OneBitState))?;
            Ok((g, st_t, x_t))
        }
        "onebit_b" | "onebit_k1" => {
            let sh: Vec<u64> = if kind == "onebit_b" { vec![3] } else { vec![2, 1] };
            let t = bits(&sh);
            let st = g.input(t.clone())?;
            let x = g.input(t.clone())?;
            let cv: Vec<u64> = if kind == "onebit_b" { vec![1, 0, 1] } else { vec![1, 1] };
            let c0 = g.constant(t.clone(), Value::from_flattened_array(&cv, BIT)?)?;
            let ns = st.multiply(x.clone())?.add(c0)?.nop()?;
            let o = st.add(x)?;
            finish_body(&g, ns, o, Some(GraphAnnotation::OneBitState))?;
            Ok((g, t.clone(), t))
        }
        _ => Err(runtime_error!("unknown body kind {}", kind)),
    }
}

fn build_case(kind: &str, n: u64) -> Result<Built> {
    let c = create_context()?;
    let random = kind.contains("random") || kind.ends_with("_rnd");
    match kind {
        "nested3" | "nested3_rnd" => {
            // C: leaf; B: iterate body calling C; A: iterates B; main calls A twice (Call in Iterate in Call)
            let t = bits(&[2]);
            let gc = c.create_graph()?;
            {
                let a = gc.input(t.clone())?;
                let b = gc.input(t.clone())?;
                let o = if kind == "nested3" {
                    a.multiply(b)?.add(a)?.nop()?
                } else {
                    a.multiply(b)?.add(gc.random(t.clone())?.nop()?)?
                };
                gc.set_output_node(o)?;
                gc.finalize()?;
            }
            let gb = c.create_graph()?;
            {
                let st = gb.input(t.clone())?;
                let x = gb.input(t.clone())?;
                let r = gb.call(gc, vec![st, x.clone()])?;
                let o = r.add(x)?;
                gb.set_output_node(gb.create_tuple(vec![r, o])?)?;
                gb.finalize()?;
            }
            let ga = c.create_graph()?;
            {
                let s0 = ga.input(t.clone())?;
                let xs = ga.input(vector_type(n, t.clone()))?;
                let r = ga.iterate(gb, s0, xs)?;
                ga.set_output_node(r)?;
                ga.finalize()?;
            }
            let gm = c.create_graph()?;
            {
                let s0 = gm.input(t.clone())?;
                let xs = gm.input(vector_type(n, t.clone()))?;
                let r1 = gm.call(ga.clone(), vec![s0, xs.clone()])?;
                let r2 = gm.call(ga, vec![r1.tuple_get(0)?, xs])?;
                gm.set_output_node(gm.create_tuple(vec![r1, r2])?)?;
                gm.finalize()?;
            }
            c.set_main_graph(gm)?;
        }
        "nested_iter" => {
            // Iterate (general) whose body is an Iterate of an associative body over a vector of 3 items
            let (inner, st_t, x_t) = body(&c, "assoc_nc")?;
            let gb = c.create_graph()?;
            {
                let st = gb.input(st_t.clone())?;
                let xs = gb.input(vector_type(3, x_t.clone()))?;
                let r = gb.iterate(inner, st, xs)?;
                gb.set_output_node(r)?;
                gb.finalize()?;
            }
            let gm = c.create_graph()?;
            {
                let s0 = gm.input(st_t)?;
                let xss = gm.input(vector_type(n, vector_type(3, x_t)))?;
                let r = gm.iterate(gb, s0, xss)?;
                gm.set_output_node(r)?;
                gm.finalize()?;
            }
            c.set_main_graph(gm)?;
        }
        _ => {
            let (b, st_t, x_t) = body(&c, kind)?;
            let gm = c.create_graph()?;
            let s0 = gm.input(st_t)?;
            let xs = gm.input(vector_type(n, x_t))?;
            let r = gm.iterate(b, s0, xs)?;
            gm.set_output_node(r)?;
            gm.finalize()?;
            c.set_main_graph(gm)?;
        }
    }
    c.finalize()?;
    Ok(Built { ctx: c, random })
}

// ------------------------------------------------------------------------------------------------ inputs

/// bit widths of the leaves of a type in depth-first order
fn leaf_bits(t: &Type, out: &mut Vec<u32>) {
    match t {
        Type::Scalar(st) => out.push(st.size_in_bits() as u32),
        Type::Array(sh, st) => {
            for _ in 0..sh.iter().product::<u64>() {
                out.push(st.size_in_bits() as u32)
            }
        }
        Type::Tuple(ts) => ts.iter().for_each(|x| leaf_bits(x, out)),
        Type::NamedTuple(ts) => ts.iter().for_each(|x| leaf_bits(&x.1, out)),
        Type::Vector(n, e) => (0..*n).for_each(|_| leaf_bits(e, out)),
    }
}

fn tree_from(t: &Type, it: &mut dyn Iterator<Item = u128>) -> VTree {
    match t {
        Type::Scalar(_) => VTree::Leaf(vec![it.next().unwrap()]),
        Type::Array(sh, _) => VTree::Leaf((0..sh.iter().product::<u64>()).map(|_| it.next().unwrap()).collect()),
        Type::Tuple(ts) => VTree::Node(ts.iter().map(|x| tree_from(x, it)).collect()),
        Type::NamedTuple(ts) => VTree::Node(ts.iter().map(|x| tree_from(&x.1, it)).collect()),
        Type::Vector(n, e) => VTree::Node((0..*n).map(|_| tree_from(e, it)).collect()),
    }
}

/// All inputs when they have at most `exh_bits` bits, otherwise zeros, ones and `samples` seeded random inputs.
fn make_inputs(types: &[Type], exh_bits: u32, samples: usize, seed: u64) -> (Vec<Vec<VTree>>, bool) {
    let tt = tuple_type(types.to_vec());
    let mut lb = vec![];
    leaf_bits(&tt, &mut lb);
    let total: u32 = lb.iter().sum();
    let split = |tr: VTree| match tr {
        VTree::Node(v) => v,
        _ => unreachable!(),
    };
    let mut out = vec![];
    if total <= exh_bits {
        for code in 0u64..(1u64 << total) {
            let mut pos = 0;
            let leaves: Vec<u128> = lb
                .iter()
                .map(|w| {
                    let v = (code >> pos) & ((1u64 << w) - 1);
                    pos += w;
                    v as u128
                })
                .collect();
            out.push(split(tree_from(&tt, &mut leaves.into_iter())));
        }
        (out, true)
    } else {
        let mut rng = StdRng::seed_from_u64(seed);
        let mask = |w: &u32| if *w >= 128 { u128::MAX } else { (1u128 << w) - 1 };
        out.push(split(tree_from(&tt, &mut lb.iter().map(|_| 0u128))));
        out.push(split(tree_from(&tt, &mut lb.iter().map(mask))));
        for _ in 0..samples {
            let leaves: Vec<u128> = lb.iter().map(|w| rng.gen::<u128>() & mask(w)).collect();
            out.push(split(tree_from(&tt, &mut leaves.into_iter())));
        }
        (out, false)
    }
}

fn eval_json(g: &Graph, types: &[Type], input: &[VTree]) -> (Json, bool) {
    let r = catch(std::panic::AssertUnwindSafe(|| -> Result<Json> {
        let vals: Vec<Value> = input.iter().zip(types.iter()).map(|(tr, t)| tree_to_value(tr, t)).collect::<Result<_>>()?;
        let v = evaluate_simple_evaluator(g.clone(), vals, Some([7u8; 16]))?;
        value_json(&v, &g.get_output_node()?.get_type()?, Num::Mod(16))
    }));
    match r {
        Ok(Ok(j)) => (j, true),
        Ok(Err(e)) => (json!([format!("error: {}", e).chars().take(200).collect::<String>()]), false),
        Err(p) => (json!([format!("panic: {}", p).chars().take(200).collect::<String>()]), false),
    }
}

fn histogram(c: &Context) -> (Json, u64) {
    let mut h: BTreeMap<String, u64> = BTreeMap::new();
    let mut total = 0;
    for g in c.get_graphs() {
        for n in g.get_nodes() {
            let name = op_json(&n.get_operation(), Num::Mod(16))["op"].as_str().unwrap().to_owned();
            *h.entry(name).or_insert(0) += 1;
            total += 1;
        }
    }
    (json!(h), total)
}

fn mode_opt(j: &Json) -> Option<ciphercore_base::inline::inline_ops::InlineMode> {
    j.as_str().filter(|s| !s.is_empty() && *s != "None").map(compile::inline_mode)
}

fn cmd_c07(args: &[String]) {
    let cases = read_ndjson(&args[0]);
    let mut out = std::io::BufWriter::new(std::fs::File::create(&args[1]).unwrap());
    for cs in cases {
        let kind = cs["kind"].as_str().unwrap();
        let n = cs["n"].as_u64().unwrap();
        let mut rec = Map::new();
        for k in ["id", "kind", "n", "mode", "call", "iter"] {
            rec.insert(k.to_owned(), cs[k].clone());
        }
        // defaults so that every record has the same fields (TLC cannot read JSON null)
        rec.insert("status".into(), json!("ok"));
        rec.insert("err".into(), json!(""));
        rec.insert("has_inl".into(), json!(false));
        rec.insert("exhaustive".into(), json!(false));
        rec.insert("random".into(), json!(false));
        rec.insert("hist".into(), json!({}));
        rec.insert("nodes".into(), json!(0));
        rec.insert("orig".into(), json!({"graphs":[],"main":0}));
        rec.insert("inl".into(), json!({"graphs":[],"main":0}));
        rec.insert("inputs".into(), json!([]));
        rec.insert("orig_res".into(), json!([]));
        rec.insert("inl_res".into(), json!([]));
        rec.insert("orig_ok".into(), json!([]));
        rec.insert("inl_ok".into(), json!([]));
        rec.insert("tla".into(), json!(false));
        let built = match catch(std::panic::AssertUnwindSafe(|| build_case(kind, n))) {
            Ok(Ok(b)) => b,
            Ok(Err(e)) => {
                rec.insert("status".into(), json!("build_err"));
                rec.insert("err".into(), json!(format!("{}", e).chars().take(300).collect::<String>()));
                writeln!(out, "{}", Json::Object(rec)).unwrap();
                continue;
            }
            Err(p) => {
                rec.insert("status".into(), json!("build_panic"));
                rec.insert("err".into(), json!(p));
                writeln!(out, "{}", Json::Object(rec)).unwrap();
                continue;
            }
        };
        rec.insert("random".into(), json!(built.random));
        rec.insert("tla".into(), json!(!built.random));
        rec.insert("orig".into(), prog::context_to_prog(&built.ctx, Num::Mod(16)).unwrap());
        let cfg = InlineConfig {
            default_mode: compile::inline_mode(cs["mode"].as_str().unwrap()),
            override_call_mode: mode_opt(&cs["call"]),
            override_iterate_mode: mode_opt(&cs["iter"]),
        };
        let ctx = built.ctx.clone();
        let inl = match catch(std::panic::AssertUnwindSafe(|| inline_operations(&ctx, cfg))) {
            Ok(Ok(m)) => m.get_context(),
            Ok(Err(e)) => {
                rec.insert("status".into(), json!("inline_err"));
                rec.insert("err".into(), json!(format!("{}", e).chars().take(300).collect::<String>()));
                writeln!(out, "{}", Json::Object(rec)).unwrap();
                continue;
            }
            Err(p) => {
                rec.insert("status".into(), json!("inline_panic"));
                rec.insert("err".into(), json!(p));
                writeln!(out, "{}", Json::Object(rec)).unwrap();
                continue;
            }
        };
        let (hist, total) = histogram(&inl);
        rec.insert("hist".into(), hist);
        rec.insert("nodes".into(), json!(total));
        if total <= cs["export_nodes"].as_u64().unwrap_or(0) {
            rec.insert("has_inl".into(), json!(true));
            rec.insert("inl".into(), prog::context_to_prog(&inl, Num::Mod(16)).unwrap());
        }
        if !built.random {
            let gm = built.ctx.get_main_graph().unwrap();
            let gi = inl.get_main_graph().unwrap();
            let types: Vec<Type> = compile::inputs_of(&gm).iter().map(|x| x.get_type().unwrap()).collect();
            let (inputs, exh) = make_inputs(
                &types,
                cs["exh_bits"].as_u64().unwrap_or(10) as u32,
                cs["samples"].as_u64().unwrap_or(8) as usize,
                cs["seed"].as_u64().unwrap_or(1),
            );
            rec.insert("exhaustive".into(), json!(exh));
            let mut ji = vec![];
            let mut jo = vec![];
            let mut jn = vec![];
            let mut ook = vec![];
            let mut nok = vec![];
            for inp in inputs.iter() {
                ji.push(Json::Array(inp.iter().zip(types.iter()).map(|(tr, t)| tree_json(tr, t, Num::Mod(16))).collect()));
                let (a, aok) = eval_json(&gm, &types, inp);
                let (b, bok) = eval_json(&gi, &types, inp);
                jo.push(a);
                jn.push(b);
                ook.push(aok);
                nok.push(bok);
            }
            rec.insert("inputs".into(), Json::Array(ji));
            rec.insert("orig_res".into(), Json::Array(jo));
            rec.insert("inl_res".into(), Json::Array(jn));
            rec.insert("orig_ok".into(), json!(ook));
            rec.insert("inl_ok".into(), json!(nok));
        }
        writeln!(out, "{}", Json::Object(rec)).unwrap();
    }
}

// ------------------------------------------------------------------------------------------------ C08 (see below)
use ciphercore_base::evaluators::simple_evaluator::SimpleEvaluator;
use ciphercore_base::evaluators::Evaluator;
use ciphercore_base::ops::adder::BinaryAdd;
use ciphercore_base::ops::auc::AucScore;
use ciphercore_base::ops::clip::Clip2K;
use ciphercore_base::ops::comparisons::{Equal, GreaterThan, GreaterThanEqualTo, LessThan, LessThanEqualTo, NotEqual};
use ciphercore_base::ops::fixed_precision::fixed_multiply::FixedMultiply;
use ciphercore_base::ops::fixed_precision::fixed_precision_config::FixedPrecisionConfig;
use ciphercore_base::ops::goldschmidt_division::GoldschmidtDivision;
use ciphercore_base::ops::integer_key_sort::SortByIntegerKey;
use ciphercore_base::ops::inverse_sqrt::InverseSqrt;
use ciphercore_base::ops::long_division::LongDivision;
use ciphercore_base::ops::min_max::{Max, Min};
use ciphercore_base::ops::multiplexer::Mux;
use ciphercore_base::ops::newton_inversion::NewtonInversion;
use ciphercore_base::ops::pwl::approx_exponent::ApproxExponent;
use ciphercore_base::ops::pwl::approx_gelu::ApproxGelu;
use ciphercore_base::ops::pwl::approx_gelu_derivative::ApproxGeluDerivative;
use ciphercore_base::ops::pwl::approx_sigmoid::ApproxSigmoid;
use ciphercore_base::ops::taylor_exponent::TaylorExponent;

struct OpRow {
    family: String,
    params: Json,
    op: CustomOperation,
    public: bool,
    argsets: Vec<Vec<Type>>,
}

/// The public custom operations of ops/ (and Not/Or) on a grid that varies EVERY field of every struct
/// (struct literals: a new field in /repo breaks this build instead of being silently left out).
fn op_grid() -> Vec<OpRow> {
    let mut v: Vec<OpRow> = vec![];
    let b8 = || vec![bits(&[8]), bits(&[8])];
    let b28 = || vec![bits(&[2, 8]), bits(&[2, 8])];
    let i64a = |n: u64| array_type(vec![n], INT64);
    let mut add = |family: &str, params: Json, op: CustomOperation, argsets: Vec<Vec<Type>>| {
        v.push(OpRow { family: family.to_owned(), params, op, public: true, argsets })
    };
    for s in [false, true] {
        add("GreaterThan", json!({"signed_comparison":s}), CustomOperation::new(GreaterThan { signed_comparison: s }), vec![b8(), b28()]);
        add("LessThan", json!({"signed_comparison":s}), CustomOperation::new(LessThan { signed_comparison: s }), vec![b8(), b28()]);
        add("LessThanEqualTo", json!({"signed_comparison":s}), CustomOperation::new(LessThanEqualTo { signed_comparison: s }), vec![b8(), b28()]);
        add("GreaterThanEqualTo", json!({"signed_comparison":s}), CustomOperation::new(GreaterThanEqualTo { signed_comparison: s }), vec![b8(), b28()]);
        add("Min", json!({"signed_comparison":s}), CustomOperation::new(Min { signed_comparison: s }), vec![b8(), b28()]);
        add("Max", json!({"signed_comparison":s}), CustomOperation::new(Max { signed_comparison: s }), vec![b8(), b28()]);
        add("BinaryAdd", json!({"overflow_bit":s}), CustomOperation::new(BinaryAdd { overflow_bit: s }), vec![b8(), b28()]);
        add("LongDivision", json!({"signed":s}), CustomOperation::new(LongDivision { signed: s }), vec![b8(), b28()]);
    }
    add("NotEqual", json!({}), CustomOperation::new(NotEqual {}), vec![b8(), b28()]);
    add("Equal", json!({}), CustomOperation::new(Equal {}), vec![b8(), b28()]);
    add("Mux", json!({}), CustomOperation::new(Mux {}), vec![vec![sbit(), bits(&[8]), bits(&[8])], vec![bits(&[2, 1]), bits(&[2, 8]), bits(&[2, 8])]]);
    add("Not", json!({}), CustomOperation::new(Not {}), vec![vec![bits(&[8])], vec![bits(&[2, 8])]]);
    add("Or", json!({}), CustomOperation::new(Or {}), vec![b8(), b28()]);
    for k in [1u64, 2, 5] {
        add("Clip2K", json!({"k":k}), CustomOperation::new(Clip2K { k }), vec![vec![bits(&[8])], vec![bits(&[2, 8])]]);
    }
    let nt1 = named_tuple_type(vec![("a".into(), array_type(vec![4], UINT8)), ("b".into(), array_type(vec![4], UINT8))]);
    let nt2 = named_tuple_type(vec![
        ("a".into(), array_type(vec![3], INT16)),
        ("b".into(), array_type(vec![3], INT16)),
        ("c".into(), array_type(vec![3, 2], BIT)),
    ]);
    for key in ["a", "b"] {
        add("SortByIntegerKey", json!({"key":key}), CustomOperation::new(SortByIntegerKey { key: key.to_owned() }), vec![vec![nt1.clone()], vec![nt2.clone()]]);
    }
    for fb in [4u64, 10] {
        for debug in [false, true] {
            let cfg = FixedPrecisionConfig { fractional_bits: fb, debug };
            add("FixedMultiply", json!({"fractional_bits":fb,"debug":debug}), CustomOperation::new(FixedMultiply { config: cfg.clone() }), vec![vec![i64a(3), i64a(3)], vec![scalar_type(INT64), scalar_type(INT64)]]);
            add("AucScore", json!({"fractional_bits":fb,"debug":debug}), CustomOperation::new(AucScore { fp: cfg }), vec![vec![i64a(4), i64a(4)], vec![i64a(6), i64a(6)]]);
        }
    }
    for it in [2u64, 3] {
        for cap in [8u64, 10] {
            add("NewtonInversion", json!({"iterations":it,"denominator_cap_2k":cap}), CustomOperation::new(NewtonInversion { iterations: it, denominator_cap_2k: cap }), vec![vec![i64a(3)], vec![scalar_type(INT64)]]);
            add("GoldschmidtDivision", json!({"iterations":it,"denominator_cap_2k":cap}), CustomOperation::new(GoldschmidtDivision { iterations: it, denominator_cap_2k: cap }), vec![vec![i64a(3), i64a(3)], vec![scalar_type(INT64), scalar_type(INT64)]]);
            add("InverseSqrt", json!({"iterations":it,"denominator_cap_2k":cap}), CustomOperation::new(InverseSqrt { iterations: it, denominator_cap_2k: cap }), vec![vec![i64a(3)], vec![scalar_type(INT64)]]);
        }
    }
    for terms in [3u64, 5] {
        for pts in [4u64, 8] {
            add("TaylorExponent", json!({"taylor_terms":terms,"fixed_precision_points":pts}), CustomOperation::new(TaylorExponent { taylor_terms: terms, fixed_precision_points: pts }), vec![vec![i64a(3)], vec![scalar_type(INT64)]]);
        }
    }
    for pr in [8u64, 10] {
        add("ApproxExponent", json!({"precision":pr}), CustomOperation::new(ApproxExponent { precision: pr }), vec![vec![i64a(3)], vec![scalar_type(INT64)]]);
        for lb in [3u64, 4] {
            add("ApproxGelu", json!({"precision":pr,"approximation_log_buckets":lb}), CustomOperation::new(ApproxGelu { precision: pr, approximation_log_buckets: lb }), vec![vec![i64a(3)], vec![scalar_type(INT64)]]);
            add("ApproxGeluDerivative", json!({"precision":pr,"approximation_log_buckets":lb}), CustomOperation::new(ApproxGeluDerivative { precision: pr, approximation_log_buckets: lb }), vec![vec![i64a(3)], vec![scalar_type(INT64)]]);
            add("ApproxSigmoid", json!({"precision":pr,"approximation_log_buckets":lb}), CustomOperation::new(ApproxSigmoid { precision: pr, approximation_log_buckets: lb }), vec![vec![i64a(3)], vec![scalar_type(INT64)]]);
        }
    }
    v
}

/// Custom nodes created by `op.instantiate(types)` (in every graph it creates): (operation, argument types).
fn children(op: &CustomOperation, types: &[Type]) -> Result<Vec<(CustomOperation, Vec<Type>)>> {
    let fake = create_context()?;
    op.instantiate(fake.clone(), types.to_vec())?;
    let mut out = vec![];
    for g in fake.get_graphs() {
        for n in g.get_nodes() {
            if let Operation::Custom(c) = n.get_operation() {
                let ts: Vec<Type> = n.get_node_dependencies().iter().map(|d| d.get_type()).collect::<Result<_>>()?;
                out.push((c, ts));
            }
        }
    }
    Ok(out)
}

/// A context whose main graph applies `op` to fresh inputs of `types`.
fn single_op_context(op: &CustomOperation, types: &[Type]) -> Result<Context> {
    let c = create_context()?;
    let g = c.create_graph()?;
    let ins: Vec<Node> = types.iter().map(|t| g.input(t.clone())).collect::<Result<_>>()?;
    let o = g.custom_op(op.clone(), ins)?;
    g.set_output_node(o)?;
    g.finalize()?;
    c.set_main_graph(g)?;
    c.finalize()?;
    Ok(c)
}

fn graph_names(c: &Context) -> Vec<String> {
    c.get_graphs().iter().filter_map(|g| g.get_name().ok()).filter(|s| !s.is_empty()).collect()
}

fn count_custom(c: &Context) -> u64 {
    c.get_graphs().iter().map(|g| g.get_nodes().iter().filter(|n| matches!(n.get_operation(), Operation::Custom(_))).count() as u64).sum()
}

fn tkey(types: &[Type]) -> String {
    Json::Array(types.iter().map(type_json).collect()).to_string()
}

/// c08-dump <ops.ndjson> <insts.ndjson>
fn cmd_c08_dump(args: &[String]) {
    let mut ops = op_grid();
    struct Inst {
        op: usize,
        types: Vec<Type>,
        root: bool,
    }
    let mut insts: Vec<Inst> = vec![];
    for (i, r) in ops.iter().enumerate() {
        for a in r.argsets.iter() {
            insts.push(Inst { op: i, types: a.clone(), root: true });
        }
    }
    let mut out_insts = vec![];
    let mut q = 0;
    while q < insts.len() {
        let op = ops[insts[q].op].op.clone();
        let types = insts[q].types.clone();
        let mut rec = json!({"ix": q + 1, "op": insts[q].op + 1, "root": insts[q].root, "tkey": tkey(&types),
            "tdisp": types.iter().map(|t| format!("{}", t)).collect::<Vec<_>>().join(", "),
            "types": types.iter().map(type_json).collect::<Vec<_>>(),
            "ok": false, "err": "", "name": "", "deps": [], "closure_names": []});
        let kids = catch(std::panic::AssertUnwindSafe(|| children(&op, &types)));
        match kids {
            Ok(Ok(kids)) => {
                let mut deps = vec![];
                for (c, ts) in kids {
                    // the code's own equality decides whether this is an operation already in the table
                    let oi = match ops.iter().position(|r| r.op == c) {
                        Some(i) => i,
                        None => {
                            ops.push(OpRow { family: c.get_name().split('(').next().unwrap_or("").to_owned(), params: json!({}), op: c.clone(), public: false, argsets: vec![] });
                            ops.len() - 1
                        }
                    };
                    let ii = match insts.iter().position(|x| x.op == oi && x.types == ts) {
                        Some(i) => i,
                        None => {
                            insts.push(Inst { op: oi, types: ts, root: false });
                            insts.len() - 1
                        }
                    };
                    if !deps.contains(&(ii + 1)) {
                        deps.push(ii + 1);
                    }
                }
                rec["deps"] = json!(deps);
                // the name the REAL pass gives to this instantiation: instantiate it alone
                let alone = catch(std::panic::AssertUnwindSafe(|| -> Result<(String, Vec<String>)> {
                    let c = single_op_context(&op, &types)?;
                    let m = run_instantiation_pass(c)?.get_context();
                    let call = m.get_main_graph()?.get_output_node()?;
                    let callee = call.get_graph_dependencies()[0].get_name()?;
                    Ok((callee, graph_names(&m)))
                }));
                match alone {
                    Ok(Ok((name, names))) => {
                        rec["ok"] = json!(true);
                        rec["name"] = json!(name);
                        rec["closure_names"] = json!(names);
                    }
                    Ok(Err(e)) => rec["err"] = json!(format!("pass: {}", e).chars().take(200).collect::<String>()),
                    Err(p) => rec["err"] = json!(format!("pass panic: {}", p).chars().take(200).collect::<String>()),
                }
            }
            Ok(Err(e)) => rec["err"] = json!(format!("instantiate: {}", e).chars().take(200).collect::<String>()),
            Err(p) => rec["err"] = json!(format!("instantiate panic: {}", p).chars().take(200).collect::<String>()),
        }
        out_insts.push(rec);
        q += 1;
    }
    let mut f = std::io::BufWriter::new(std::fs::File::create(&args[0]).unwrap());
    for (i, r) in ops.iter().enumerate() {
        let eq: Vec<bool> = ops.iter().map(|o| r.op == o.op).collect();
        writeln!(f, "{}", json!({"ix": i + 1, "family": r.family, "params": r.params.to_string(), "public": r.public,
            "name": r.op.get_name(), "serde": serde_json::to_string(&r.op).unwrap_or_default(), "eq": eq})).unwrap();
    }
    let mut f = std::io::BufWriter::new(std::fs::File::create(&args[1]).unwrap());
    for r in out_insts {
        writeln!(f, "{}", r).unwrap();
    }
}

// ---- reference: per-node evaluation of the ORIGINAL context, a Custom node = that operation instantiated alone
struct RefEval {
    ev: SimpleEvaluator,
    alone: std::collections::HashMap<String, Context>,
}

impl RefEval {
    fn custom(&mut self, op: &CustomOperation, types: &[Type], vals: Vec<Value>) -> Result<Value> {
        let key = format!("{}|{}", serde_json::to_string(op)?, tkey(types));
        if !self.alone.contains_key(&key) {
            let c = run_instantiation_pass(single_op_context(op, types)?)?.get_context();
            self.alone.insert(key.clone(), c);
        }
        let c = self.alone.get(&key).unwrap().clone();
        evaluate_simple_evaluator(c.get_main_graph()?, vals, Some([7u8; 16]))
    }

    fn graph(&mut self, g: &Graph, inputs: Vec<Value>) -> Result<Value> {
        let mut vals: Vec<Value> = vec![];
        let mut next_input = 0;
        for n in g.get_nodes() {
            let deps: Vec<Value> = n.get_node_dependencies().iter().map(|d| vals[d.get_id() as usize].clone()).collect();
            let v = match n.get_operation() {
                Operation::Input(_) => {
                    next_input += 1;
                    inputs[next_input - 1].clone()
                }
                Operation::Custom(op) => {
                    let ts: Vec<Type> = n.get_node_dependencies().iter().map(|d| d.get_type()).collect::<Result<_>>()?;
                    self.custom(&op, &ts, deps)?
                }
                Operation::Call => self.graph(&n.get_graph_dependencies()[0], deps)?,
                Operation::Iterate => {
                    let body = n.get_graph_dependencies()[0].clone();
                    let mut st = deps[0].clone();
                    let mut outs = vec![];
                    for x in deps[1].to_vector()? {
                        let r = self.graph(&body, vec![st.clone(), x])?.to_vector()?;
                        st = r[0].clone();
                        outs.push(r[1].clone());
                    }
                    Value::from_vector(vec![st, Value::from_vector(outs)])
                }
                _ => self.ev.evaluate_node(n.clone(), deps)?,
            };
            vals.push(v);
        }
        Ok(vals[g.get_output_node()?.get_id() as usize].clone())
    }
}

fn op_of(j: &Json) -> (CustomOperation, Vec<Type>) {
    let op: CustomOperation = serde_json::from_str(j["serde"].as_str().unwrap()).expect("custom op serde");
    let types = j["types"].as_array().unwrap().iter().map(type_from_json).collect();
    (op, types)
}

/// Context of a run case. shapes: flat | twice | user_call | iterate
fn build_c08(cs: &Json) -> Result<Context> {
    let c = create_context()?;
    let insts: Vec<(CustomOperation, Vec<Type>)> = cs["insts"].as_array().unwrap().iter().map(op_of).collect();
    let shape = cs["shape"].as_str().unwrap();
    let apply_all = |g: &Graph, reps: usize| -> Result<Node> {
        let mut outs = vec![];
        for (op, ts) in insts.iter() {
            let ins: Vec<Node> = ts.iter().map(|t| g.input(t.clone())).collect::<Result<_>>()?;
            for _ in 0..reps {
                outs.push(g.custom_op(op.clone(), ins.clone())?);
            }
        }
        g.create_tuple(outs)
    };
    match shape {
        "flat" | "twice" => {
            let g = c.create_graph()?;
            let o = apply_all(&g, if shape == "flat" { 1 } else { 2 })?;
            g.set_output_node(o)?;
            g.finalize()?;
            c.set_main_graph(g)?;
        }
        "user_call" => {
            // the custom nodes live in a user graph that is called twice; the main graph uses the first one as well
            let u = c.create_graph()?;
            let o = apply_all(&u, 1)?;
            u.set_output_node(o)?;
            u.finalize()?;
            let g = c.create_graph()?;
            let mut a = vec![];
            let mut b = vec![];
            for (_, ts) in insts.iter() {
                for t in ts {
                    a.push(g.input(t.clone())?);
                }
            }
            for (_, ts) in insts.iter() {
                for t in ts {
                    b.push(g.input(t.clone())?);
                }
            }
            let r1 = g.call(u.clone(), a.clone())?;
            let r2 = g.call(u, b)?;
            let first = g.custom_op(insts[0].0.clone(), a[..insts[0].1.len()].to_vec())?;
            g.set_output_node(g.create_tuple(vec![r1, r2, first])?)?;
            g.finalize()?;
            c.set_main_graph(g)?;
        }
        "iterate" => {
            // insts = [Min/Max-like (t,t)->t, Clip-like (t)->t, comparison (t,t)->bits]: comparison inside Clip inside Iterate
            let t = insts[0].1[0].clone();
            let body = c.create_graph()?;
            let st = body.input(t.clone())?;
            let x = body.input(t.clone())?;
            let m = body.custom_op(insts[0].0.clone(), vec![st, x.clone()])?;
            let cl = body.custom_op(insts[1].0.clone(), vec![m])?;
            let cmp = body.custom_op(insts[2].0.clone(), vec![cl.clone(), x])?;
            body.set_output_node(body.create_tuple(vec![cl, cmp])?)?;
            body.finalize()?;
            let g = c.create_graph()?;
            let s0 = g.input(t.clone())?;
            let xs = g.input(vector_type(3, t))?;
            let r = g.iterate(body, s0, xs)?;
            g.set_output_node(r)?;
            g.finalize()?;
            c.set_main_graph(g)?;
        }
        _ => return Err(runtime_error!("unknown shape")),
    }
    c.finalize()?;
    Ok(c)
}

/// c08-run <cases.ndjson> <out.ndjson>
/// Makes `n` custom-operation calls that the builder must reject; returns how many were rejected.
fn rejected_custom_op_prelude(n: usize) -> usize {
    use ciphercore_base::custom_ops::CustomOperation;
    use ciphercore_base::data_types::{array_type, scalar_type, BIT, INT32};
    use ciphercore_base::graphs::create_context;
    use ciphercore_base::ops::comparisons::GreaterThan;
    use ciphercore_base::ops::min_max::{Max, Min};
    use ciphercore_base::ops::multiplexer::Mux;
    let mut rejected = 0;
    for k in 0..n {
        let r = catch(std::panic::AssertUnwindSafe(|| -> ciphercore_base::errors::Result<()> {
            let c = create_context()?;
            let g = c.create_graph()?;
            let a = g.input(array_type(vec![4], BIT))?;
            let b = g.input(scalar_type(INT32))?;
            match k % 4 {
                0 => g.custom_op(CustomOperation::new(Max { signed_comparison: true }), vec![a, b])?,
                1 => g.custom_op(CustomOperation::new(Min { signed_comparison: false }), vec![a])?,
                2 => g.custom_op(CustomOperation::new(GreaterThan { signed_comparison: false }), vec![b.clone(), b])?,
                _ => g.custom_op(CustomOperation::new(Mux {}), vec![b.clone(), a, b])?,
            };
            Ok(())
        }));
        if !matches!(r, Ok(Ok(()))) {
            rejected += 1;
        }
    }
    rejected
}

fn cmd_c08_run(args: &[String]) {
    let cases = read_ndjson(&args[0]);
    let mut out = std::io::BufWriter::new(std::fs::File::create(&args[1]).unwrap());
    let mut re = RefEval { ev: SimpleEvaluator::new(None).unwrap(), alone: Default::default() };
    // History before the cases: the property promises that EVERY context whose nodes type-check can be
    // instantiated, whatever happened before. So first make a batch of custom-operation calls that are
    // rejected (wrong arity / wrong argument types) in unrelated contexts, on this very thread.
    let rejected = rejected_custom_op_prelude(48);
    eprintln!("c08-run: {} rejected custom_op calls made before the cases", rejected);
    for cs in cases {
        let mut rec = json!({"id": cs["id"], "shape": cs["shape"], "roots": cs["roots"], "built": false, "pass_ok": false, "err": "",
            "custom_before": 0, "custom_after": 0, "graphs_before": 0, "graphs_after": 0, "names": [],
            "inputs": [], "inst_res": [], "ref_res": [], "inst_ok": [], "ref_ok": []});
        let ctx = match catch(std::panic::AssertUnwindSafe(|| build_c08(&cs))) {
            Ok(Ok(c)) => c,
            Ok(Err(e)) => {
                rec["err"] = json!(format!("build: {}", e).chars().take(300).collect::<String>());
                writeln!(out, "{}", rec).unwrap();
                continue;
            }
            Err(p) => {
                rec["err"] = json!(format!("build panic: {}", p));
                writeln!(out, "{}", rec).unwrap();
                continue;
            }
        };
        rec["built"] = json!(true);
        rec["custom_before"] = json!(count_custom(&ctx));
        rec["graphs_before"] = json!(ctx.get_graphs().len());
        let c2 = ctx.clone();
        let mapped = match catch(std::panic::AssertUnwindSafe(|| run_instantiation_pass(c2))) {
            Ok(Ok(m)) => m.get_context(),
            Ok(Err(e)) => {
                rec["err"] = json!(format!("{}", e).chars().take(300).collect::<String>());
                writeln!(out, "{}", rec).unwrap();
                continue;
            }
            Err(p) => {
                rec["err"] = json!(format!("panic: {}", p).chars().take(300).collect::<String>());
                writeln!(out, "{}", rec).unwrap();
                continue;
            }
        };
        rec["pass_ok"] = json!(true);
        rec["custom_after"] = json!(count_custom(&mapped));
        rec["graphs_after"] = json!(mapped.get_graphs().len());
        rec["names"] = json!(graph_names(&mapped));
        let gm = ctx.get_main_graph().unwrap();
        let gi = mapped.get_main_graph().unwrap();
        let types: Vec<Type> = compile::inputs_of(&gm).iter().map(|x| x.get_type().unwrap()).collect();
        let out_t = gm.get_output_node().unwrap().get_type().unwrap();
        let (inputs, _) = make_inputs(&types, 0, cs["samples"].as_u64().unwrap_or(3) as usize, cs["seed"].as_u64().unwrap_or(1));
        let (mut ji, mut ja, mut jb, mut oka, mut okb) = (vec![], vec![], vec![], vec![], vec![]);
        for inp in inputs.iter() {
            ji.push(Json::Array(inp.iter().zip(types.iter()).map(|(tr, t)| tree_json(tr, t, Num::Str)).collect()));
            let vals: Vec<Value> = inp.iter().zip(types.iter()).map(|(tr, t)| tree_to_value(tr, t).unwrap()).collect();
            let a = catch(std::panic::AssertUnwindSafe(|| -> Result<Json> {
                let v = evaluate_simple_evaluator(gi.clone(), vals.clone(), Some([7u8; 16]))?;
                value_json(&v, &out_t, Num::Str)
            }));
            let b = catch(std::panic::AssertUnwindSafe(|| -> Result<Json> {
                let v = re.graph(&gm, vals.clone())?;
                value_json(&v, &out_t, Num::Str)
            }));
            for (r, js, oks) in [(a, &mut ja, &mut oka), (b, &mut jb, &mut okb)] {
                match r {
                    Ok(Ok(j)) => {
                        js.push(j);
                        oks.push(true)
                    }
                    Ok(Err(e)) => {
                        js.push(json!([format!("error: {}", e).chars().take(200).collect::<String>()]));
                        oks.push(false)
                    }
                    Err(p) => {
                        js.push(json!([format!("panic: {}", p).chars().take(200).collect::<String>()]));
                        oks.push(false)
                    }
                }
            }
        }
        rec["inputs"] = Json::Array(ji);
        rec["inst_res"] = Json::Array(ja);
        rec["ref_res"] = Json::Array(jb);
        rec["inst_ok"] = json!(oka);
        rec["ref_ok"] = json!(okb);
        writeln!(out, "{}", rec).unwrap();
    }
}

fn main() {
    quiet_panics();
    let args: Vec<String> = std::env::args().skip(1).collect();
    if args.is_empty() {
        eprintln!("usage: inline c07|c08-dump|c08-run ...");
        std::process::exit(2);
    }
    match args[0].as_str() {
        "c07" => cmd_c07(&args[1..]),
        "c08-dump" => cmd_c08_dump(&args[1..]),
        "c08-run" => cmd_c08_run(&args[1..]),
        c => {
            eprintln!("unknown command {c}");
            std::process::exit(2);
        }
    }
}
