//! Harness binary of the "values" property family: C13 (codec), C14 (secret sharing), C15 (PRF / PRNG).
//! It only executes the real library and records what it did; every comparison is made by TLC
//! (spec/CodecTrace.tla, SharingTrace.tla, PRFTrace.tla, RejectionTrace.tla).
//!
//!   values c13-bytes <cases.ndjson> <out.ndjson> <seed>
//!   values c13-json  <out.ndjson> <seed>
//!   values c14       <out.ndjson> <seed> <nseeds> [full]
//!   values c15-prf   <cases.ndjson> <out.ndjson>
//!   values c15-rej   <out.ndjson> <seed> <tier> [<cases.ndjson of c15-prf: its header gives more types>]
use cc_conform::export::{self, Num, VTree};
use cc_conform::{catch, quiet_panics, read_ndjson};
use ciphercore_base::data_types::*;
use ciphercore_base::data_values::Value;
use ciphercore_base::evaluators::get_result_util::get_evaluator_result;
use ciphercore_base::evaluators::simple_evaluator::SimpleEvaluator;
use ciphercore_base::evaluators::Evaluator;
use ciphercore_base::graphs::{create_context, Node};
use ciphercore_base::mpc::utils::share_vector;
use ciphercore_base::random::PRNG;
use ciphercore_base::typed_value::TypedValue;
use ciphercore_base::typed_value_secret_shared::replicated_shares::ReplicatedShares;
use ciphercore_base::typed_value_secret_shared::TypedValueSecretShared;
use rand::rngs::StdRng;
use rand::{Rng, SeedableRng};
use serde_json::{json, Value as Json};
use std::io::Write;
use std::panic::AssertUnwindSafe;

// ------------------------------------------------------------------------------------------ helpers

fn limbs_u128(x: u128, n: usize) -> Json {
    json!((0..n).map(|i| if i < 16 { ((x >> (8 * i)) & 0xff) as u64 } else { 0 }).collect::<Vec<_>>())
}
fn limbs_u64(x: u64) -> Json {
    limbs_u128(x as u128, 8)
}
/// sign + magnitude (17 limbs) as read by spec/BigMod.tla
fn z_u(x: u128) -> Json {
    json!({"neg": false, "mag": limbs_u128(x, 17)})
}
fn z_i(x: i128) -> Json {
    if x < 0 {
        json!({"neg": true, "mag": limbs_u128(x.unsigned_abs(), 17)})
    } else {
        z_u(x as u128)
    }
}
#[derive(Clone, Copy, Debug)]
enum N {
    I(i128),
    U(u128),
}
fn parse_z(neg: bool, mag: &Json) -> N {
    let mut x = 0u128;
    for (i, l) in mag.as_array().unwrap().iter().enumerate() {
        let l = l.as_u64().unwrap() as u128;
        if i < 16 {
            x |= l << (8 * i);
        } else {
            assert_eq!(l, 0, "magnitude above 2^128 is not passable");
        }
    }
    if neg {
        assert!(x <= 1u128 << 127);
        N::I((x as i128).wrapping_neg())
    } else {
        N::U(x)
    }
}
fn n_json(n: N) -> Json {
    match n {
        N::I(x) => z_i(x),
        N::U(x) => z_u(x),
    }
}
fn bytes_json(b: &[u8]) -> Json {
    json!(b.iter().map(|x| *x as u64).collect::<Vec<_>>())
}
fn value_bytes(v: &Value) -> Option<Vec<u8>> {
    v.access_bytes(|b| Ok(b.to_vec())).ok()
}
fn layout(v: &Value) -> Json {
    v.access(|b| Ok(json!({"b": b.len()})), |vs| Ok(json!({"v": vs.iter().map(layout).collect::<Vec<_>>()})))
        .unwrap()
}
enum Body {
    B(Vec<u8>),
    V(Vec<Value>),
}
fn body(v: &Value) -> Body {
    v.access(|b| Ok(Body::B(b.to_vec())), |vs| Ok(Body::V(vs.clone()))).unwrap()
}
/// last byte of every byte leaf in depth-first order (0 for an empty leaf)
fn last_bytes(v: &Value, out: &mut Vec<u64>) {
    match body(v) {
        Body::B(b) => out.push(b.last().copied().unwrap_or(0) as u64),
        Body::V(vs) => {
            for x in vs.iter() {
                last_bytes(x, out);
            }
        }
    }
}
fn fnv(h: &mut u64, bytes: &[u8]) {
    for b in bytes {
        *h ^= *b as u64;
        *h = h.wrapping_mul(0x100000001b3);
    }
}
fn digest_into(v: &Value, h: &mut u64, len: &mut u64) {
    match body(v) {
        Body::B(b) => {
            fnv(h, &[0x42]);
            fnv(h, &(b.len() as u64).to_le_bytes());
            fnv(h, &b);
            *len += b.len() as u64;
        }
        Body::V(vs) => {
            fnv(h, &[0x56]);
            fnv(h, &(vs.len() as u64).to_le_bytes());
            for x in vs.iter() {
                digest_into(x, h, len);
            }
        }
    }
}
/// "<total bytes>:<fnv1a-64 of the structured content>"
fn digest(v: &Value) -> String {
    let mut h = 0xcbf29ce484222325u64;
    let mut len = 0u64;
    digest_into(v, &mut h, &mut len);
    format!("{}:{:016x}", len, h)
}
fn digest_bytes(b: &[u8]) -> String {
    let mut h = 0xcbf29ce484222325u64;
    fnv(&mut h, b);
    format!("{}:{:016x}", b.len(), h)
}
fn seed16(master: u64, tag: u64, i: u64) -> [u8; 16] {
    let mut r = StdRng::seed_from_u64(master ^ tag.wrapping_mul(0x9E3779B97F4A7C15) ^ i.wrapping_mul(0xD1B54A32D192ED03));
    let mut s = [0u8; 16];
    r.fill(&mut s);
    s
}
fn res_of<T>(r: &Result<ciphercore_base::errors::Result<T>, String>) -> &'static str {
    match r {
        Ok(Ok(_)) => "ok",
        Ok(Err(_)) => "err",
        Err(_) => "panic",
    }
}

// ------------------------------------------------------------------------------------------ C13 bytes

/// The ten scalar readers to_u8 .. to_i128, each as sign+magnitude (or null-free "err").
fn scalar_readers(v: &Value, st: ScalarType) -> Json {
    let mut out = vec![];
    macro_rules! rd {
        ($f:ident, u) => {
            out.push(match catch(AssertUnwindSafe(|| v.$f(st))) {
                Ok(Ok(x)) => z_u(x as u128),
                Ok(Err(_)) => json!("err"),
                Err(_) => json!("panic"),
            })
        };
        ($f:ident, i) => {
            out.push(match catch(AssertUnwindSafe(|| v.$f(st))) {
                Ok(Ok(x)) => z_i(x as i128),
                Ok(Err(_)) => json!("err"),
                Err(_) => json!("panic"),
            })
        };
    }
    rd!(to_u8, u);
    rd!(to_i8, i);
    rd!(to_u16, u);
    rd!(to_i16, i);
    rd!(to_u32, u);
    rd!(to_i32, i);
    rd!(to_u64, u);
    rd!(to_i64, i);
    rd!(to_u128, u);
    rd!(to_i128, i);
    Json::Array(out)
}
/// The ten array readers to_flattened_array_u8 .. _i128: for every reader the list of elements.
fn array_readers(v: &Value, t: &Type) -> Json {
    let mut out = vec![];
    macro_rules! rd {
        ($f:ident, u) => {
            out.push(match catch(AssertUnwindSafe(|| v.$f(t.clone()))) {
                Ok(Ok(xs)) => Json::Array(xs.into_iter().map(|x| z_u(x as u128)).collect()),
                Ok(Err(_)) => json!("err"),
                Err(_) => json!("panic"),
            })
        };
        ($f:ident, i) => {
            out.push(match catch(AssertUnwindSafe(|| v.$f(t.clone()))) {
                Ok(Ok(xs)) => Json::Array(xs.into_iter().map(|x| z_i(x as i128)).collect()),
                Ok(Err(_)) => json!("err"),
                Err(_) => json!("panic"),
            })
        };
    }
    rd!(to_flattened_array_u8, u);
    rd!(to_flattened_array_i8, i);
    rd!(to_flattened_array_u16, u);
    rd!(to_flattened_array_i16, i);
    rd!(to_flattened_array_u32, u);
    rd!(to_flattened_array_i32, i);
    rd!(to_flattened_array_u64, u);
    rd!(to_flattened_array_i64, i);
    rd!(to_flattened_array_u128, u);
    rd!(to_flattened_array_i128, i);
    Json::Array(out)
}
fn from_scalar_n(n: N, st: ScalarType) -> Result<ciphercore_base::errors::Result<Value>, String> {
    catch(AssertUnwindSafe(|| match n {
        N::I(x) => Value::from_scalar(x, st),
        N::U(x) => Value::from_scalar(x, st),
    }))
}
/// the same integer passed as the smallest standard integer type that holds it
fn from_scalar_min_t(n: N, st: ScalarType) -> (String, Result<ciphercore_base::errors::Result<Value>, String>) {
    let x: i128 = match n {
        N::I(x) => x,
        N::U(x) if x <= i128::MAX as u128 => x as i128,
        N::U(x) => return ("u128".into(), catch(AssertUnwindSafe(|| Value::from_scalar(x, st)))),
    };
    macro_rules! try_t {
        ($t:ty, $name:expr) => {
            if let Ok(y) = <$t>::try_from(x) {
                return ($name.into(), catch(AssertUnwindSafe(|| Value::from_scalar(y, st))));
            }
        };
    }
    try_t!(i8, "i8");
    try_t!(u8, "u8");
    try_t!(i16, "i16");
    try_t!(u16, "u16");
    try_t!(i32, "i32");
    try_t!(u32, "u32");
    try_t!(i64, "i64");
    try_t!(u64, "u64");
    ("i128".into(), catch(AssertUnwindSafe(|| Value::from_scalar(x, st))))
}
fn bytes_or(r: &Result<ciphercore_base::errors::Result<Value>, String>) -> Json {
    match r {
        Ok(Ok(v)) => value_bytes(v).map(|b| bytes_json(&b)).unwrap_or(json!([])),
        _ => json!([]),
    }
}
fn value_from_layout(l: &Json, fill: u8) -> Value {
    if let Some(n) = l.get("b") {
        Value::from_bytes(vec![fill; n.as_u64().unwrap() as usize])
    } else {
        Value::from_vector(l["v"].as_array().unwrap().iter().map(|x| value_from_layout(x, fill)).collect())
    }
}
fn boundary_residues(st: ScalarType, rng: &mut StdRng) -> Vec<u128> {
    let w = st.size_in_bits() as u32;
    if w == 1 {
        return vec![0, 1, 1, 0, 1];
    }
    let mask = export::st_mask(&st);
    let mut v = vec![0, 1, mask, 1u128 << (w - 1), (1u128 << (w - 1)) - 1, (1u128 << (w - 1)) + 1, mask - 1, 0x80, 0xff, 0x7f];
    if w > 8 {
        v.extend([0x8000u128 & mask, 0xffff & mask, 0x0100]);
    }
    if w > 32 {
        v.extend([1u128 << 31, 0xffff_ffff, 1u128 << 32]);
    }
    if w > 64 {
        v.extend([1u128 << 63, u64::MAX as u128, 1u128 << 64, (1u128 << 64) + 1]);
    }
    for _ in 0..4 {
        v.push(rng.gen::<u128>() & mask);
    }
    v.into_iter().map(|x| x & mask).collect()
}

fn cmd_c13_bytes(args: &[String]) {
    let cases = read_ndjson(&args[0]);
    let mut out = std::io::BufWriter::new(std::fs::File::create(&args[1]).unwrap());
    let seed: u64 = args[2].parse().unwrap();
    let mut rng = StdRng::seed_from_u64(seed ^ 0xC13);
    for c in cases {
        match c["kind"].as_str().unwrap() {
            "sc" => {
                let st = export::st_from(c["st"].as_str().unwrap());
                let n = parse_z(c["neg"].as_bool().unwrap(), &c["mag"]);
                let r = from_scalar_n(n, st);
                let (tname, rmin) = from_scalar_min_t(n, st);
                // the 64-bit constructor, when the integer is a u64 or an i64
                let r64 = match n {
                    N::U(x) if x <= u64::MAX as u128 => Some(catch(AssertUnwindSafe(|| Value::from_flattened_array_u64(&[x as u64], st)))),
                    N::I(x) if x >= i64::MIN as i128 => Some(catch(AssertUnwindSafe(|| Value::from_flattened_array_u64(&[x as i64], st)))),
                    _ => None,
                };
                let mut rec = json!({"kind":"sc","st":c["st"],"z":n_json(n),"res":res_of(&r),"bytes":bytes_or(&r),
                    "tmin":tname,"resmin":res_of(&rmin),"bmin":bytes_or(&rmin),
                    "has64": r64.is_some(), "res64": r64.as_ref().map(|x| res_of(x)).unwrap_or("none"),
                    "b64": r64.as_ref().map(|x| bytes_or(x)).unwrap_or(json!([]))});
                if let Ok(Ok(v)) = &r {
                    rec["rd"] = scalar_readers(v, st);
                    rec["rda"] = array_readers(v, &array_type(vec![1], st));
                    rec["ct"] = json!(v.check_type(scalar_type(st)).unwrap_or(false));
                } else {
                    rec["rd"] = json!([]);
                    rec["rda"] = json!([]);
                    rec["ct"] = json!(false);
                }
                writeln!(out, "{}", rec).unwrap();
            }
            "ba" => {
                let bits: Vec<u64> = c["bits"].as_array().unwrap().iter().map(|x| x.as_u64().unwrap()).collect();
                let t = array_type(vec![bits.len() as u64], BIT);
                let r = catch(AssertUnwindSafe(|| Value::from_flattened_array(&bits, BIT)));
                let r64 = catch(AssertUnwindSafe(|| Value::from_flattened_array_u64(&bits, BIT)));
                let mut rec = json!({"kind":"ba","bits":c["bits"],"res":res_of(&r),"bytes":bytes_or(&r),"b64":bytes_or(&r64)});
                if let Ok(Ok(v)) = &r {
                    rec["rda"] = array_readers(v, &t);
                    rec["ct"] = json!(v.check_type(t.clone()).unwrap_or(false));
                } else {
                    rec["rda"] = json!([]);
                    rec["ct"] = json!(false);
                }
                writeln!(out, "{}", rec).unwrap();
            }
            "ct" => {
                let t = export::type_from_json(&c["t"]);
                let v = value_from_layout(&c["lay"], 0xA5);
                let r = catch(AssertUnwindSafe(|| v.check_type(t.clone())));
                let acc = match &r {
                    Ok(Ok(b)) => json!(*b),
                    Ok(Err(_)) => json!("err"),
                    Err(_) => json!("panic"),
                };
                // TypedValue::new accepts exactly when check_type does
                let tv = catch(AssertUnwindSafe(|| TypedValue::new(t.clone(), v.clone())));
                writeln!(out, "{}", json!({"kind":"ct","lay":c["lay"],"t":c["t"],"acc":acc,"tvnew":res_of(&tv) == "ok"})).unwrap();
            }
            k => panic!("unknown case kind {k}"),
        }
    }
    // arrays of integers -> bytes -> integers (B2: the harness chooses, TLC judges)
    for st in export::ALL_ST {
        let res = boundary_residues(st, &mut rng);
        let signed = st.is_signed();
        let w = st.size_in_bits() as u32;
        // as unsigned inputs (u128) and, sign-extended, as signed inputs (i128)
        let as_i: Vec<i128> = res
            .iter()
            .map(|x| if signed && w < 128 && (x >> (w - 1)) & 1 == 1 { (*x as i128) - (1i128 << w) } else { *x as i128 })
            .collect();
        for variant in ["u", "i"] {
            if st == BIT && variant == "i" {
                continue;
            }
            let (r, ns): (_, Vec<Json>) = if variant == "u" {
                (catch(AssertUnwindSafe(|| Value::from_flattened_array(&res, st))), res.iter().map(|x| z_u(*x)).collect())
            } else {
                (catch(AssertUnwindSafe(|| Value::from_flattened_array(&as_i, st))), as_i.iter().map(|x| z_i(*x)).collect())
            };
            let t = array_type(vec![res.len() as u64], st);
            let mut rec = json!({"kind":"ar","st":export::st_name(&st),"hasns":true,"ns":ns,"n":res.len(),"res":res_of(&r),"bytes":bytes_or(&r)});
            if let Ok(Ok(v)) = &r {
                rec["rda"] = array_readers(v, &t);
                rec["ct"] = json!(v.check_type(t.clone()).unwrap_or(false));
            } else {
                rec["rda"] = json!([]);
                rec["ct"] = json!(false);
            }
            writeln!(out, "{}", rec).unwrap();
        }
        // raw bytes -> integers
        for k in [1usize, 3, 5] {
            let nbytes = if st == BIT { (k * 7 + 7) / 8 } else { k * (w as usize / 8) };
            let n = if st == BIT { k * 7 } else { k };
            let mut b = vec![0u8; nbytes];
            rng.fill(&mut b[..]);
            if k == 3 {
                for x in b.iter_mut() {
                    *x = 0xff;
                }
            }
            let v = Value::from_bytes(b.clone());
            let t = array_type(vec![n as u64], st);
            let mut rec = json!({"kind":"ar","st":export::st_name(&st),"hasns":false,"ns":[],"n":n,"res":"ok","bytes":bytes_json(&b)});
            rec["rda"] = array_readers(&v, &t);
            rec["ct"] = json!(v.check_type(t.clone()).unwrap_or(false));
            writeln!(out, "{}", rec).unwrap();
        }
    }
}

// ------------------------------------------------------------------------------------------ C13 json

fn leaf_types() -> Vec<Type> {
    let mut v = vec![];
    for st in export::ALL_ST {
        v.push(scalar_type(st));
        v.push(array_type(vec![3], st));
        v.push(array_type(vec![2, 2], st));
        v.push(array_type(vec![1], st));
    }
    v.push(array_type(vec![9], BIT));
    v.push(array_type(vec![17], BIT));
    v.push(array_type(vec![3, 3], BIT));
    v
}
fn random_tree(t: &Type, rng: &mut StdRng, style: u32) -> VTree {
    match t {
        Type::Scalar(st) | Type::Array(_, st) => {
            let n = match t {
                Type::Scalar(_) => 1,
                Type::Array(sh, _) => sh.iter().product::<u64>() as usize,
                _ => unreachable!(),
            };
            let b = boundary_residues(*st, rng);
            let mask = export::st_mask(st);
            VTree::Leaf(
                (0..n)
                    .map(|i| match style {
                        0 => 0,
                        1 => mask,
                        2 => b[(i + rng.gen_range(0..b.len())) % b.len()],
                        _ => rng.gen::<u128>() & mask,
                    })
                    .collect(),
            )
        }
        Type::Tuple(ts) => VTree::Node(ts.iter().map(|x| random_tree(x, rng, style)).collect()),
        Type::NamedTuple(ts) => VTree::Node(ts.iter().map(|x| random_tree(&x.1, rng, style)).collect()),
        Type::Vector(n, e) => VTree::Node((0..*n).map(|_| random_tree(e, rng, style)).collect()),
    }
}
/// Type grammar of depth <= 3: leaves, containers of leaves, containers of containers.
fn json_types(rng: &mut StdRng, per_level: usize) -> Vec<Type> {
    let l1 = leaf_types();
    let pick1 = |rng: &mut StdRng| l1[rng.gen_range(0..l1.len())].clone();
    let mut l2 = vec![tuple_type(vec![]), vector_type(0, tuple_type(vec![]))];
    for i in 0..per_level {
        let a = pick1(rng);
        let b = pick1(rng);
        l2.push(match i % 5 {
            0 => tuple_type(vec![a, b]),
            1 => named_tuple_type(vec![("a".into(), a), ("b b".into(), b)]),
            2 => vector_type(2, a),
            3 => tuple_type(vec![a]),
            _ => vector_type(1, b),
        });
    }
    let mut l3 = vec![];
    for i in 0..per_level {
        let a = l2[rng.gen_range(0..l2.len())].clone();
        let b = l2[rng.gen_range(0..l2.len())].clone();
        let c = pick1(rng);
        l3.push(match i % 5 {
            0 => tuple_type(vec![a, c, b]),
            1 => named_tuple_type(vec![("x".into(), a), ("y".into(), c)]),
            2 => vector_type(2, a),
            3 => tuple_type(vec![vector_type(2, a), b]),
            _ => named_tuple_type(vec![("k".into(), c), ("v".into(), vector_type(3, b))]),
        });
    }
    let mut all = l1;
    all.extend(l2);
    all.extend(l3);
    all
}
fn abstract_tv(tv: &TypedValue) -> (Json, Json) {
    let t = tv.t.clone();
    match export::value_to_tree(&tv.value, &t) {
        Ok(tr) => (export::type_json(&t), export::tree_json(&tr, &t, Num::Str)),
        Err(_) => (export::type_json(&t), json!("unreadable")),
    }
}
fn cmd_c13_json(args: &[String]) {
    let mut out = std::io::BufWriter::new(std::fs::File::create(&args[0]).unwrap());
    let seed: u64 = args[1].parse().unwrap();
    let per_level: usize = args.get(2).map(|x| x.parse().unwrap()).unwrap_or(40);
    let mut rng = StdRng::seed_from_u64(seed ^ 0x13_5051);
    for t in json_types(&mut rng, per_level) {
        for style in 0..4u32 {
            let tree = random_tree(&t, &mut rng, style);
            let v = export::tree_to_value(&tree, &t).expect("tree_to_value");
            let tv = match TypedValue::new(t.clone(), v) {
                Ok(x) => x,
                Err(e) => panic!("harness built an ill-typed value: {e}"),
            };
            let (t1, v1) = abstract_tv(&tv);
            let intended = export::tree_json(&tree, &t, Num::Str);
            let ser = catch(AssertUnwindSafe(|| serde_json::to_string(&tv)));
            let mut rec = json!({"kind":"js","t":t1,"v":v1,"intended":intended,"res":"ok","t2":t1,"v2":"none","eq":false,"len":0,"txt":""});
            match ser {
                Ok(Ok(s)) => {
                    rec["len"] = json!(s.len());
                    if s.len() <= 160 {
                        rec["txt"] = json!(s);
                    }
                    match catch(AssertUnwindSafe(|| serde_json::from_str::<TypedValue>(&s))) {
                        Ok(Ok(tv2)) => {
                            let (t2, v2) = abstract_tv(&tv2);
                            rec["t2"] = t2;
                            rec["v2"] = v2;
                            rec["eq"] = json!(tv == tv2);
                        }
                        Ok(Err(_)) => rec["res"] = json!("de_err"),
                        Err(_) => rec["res"] = json!("de_panic"),
                    }
                }
                Ok(Err(_)) => rec["res"] = json!("ser_err"),
                Err(_) => rec["res"] = json!("ser_panic"),
            }
            writeln!(out, "{}", rec).unwrap();
        }
    }
}

// ------------------------------------------------------------------------------------------ C14

fn tj(v: &Value, t: &Type) -> Json {
    match export::value_json(v, t, Num::Limbs) {
        Ok(j) => j,
        Err(_) => json!("unreadable"),
    }
}
fn tuple3(v: &Value) -> Vec<Value> {
    v.to_vector().expect("three-tuple")
}
fn c14_types() -> Vec<Type> {
    let mut v = vec![];
    for st in export::ALL_ST {
        v.push(scalar_type(st));
        v.push(array_type(vec![3], st));
        v.push(array_type(vec![2, 2], st));
    }
    v.push(array_type(vec![9], BIT));
    v.push(array_type(vec![17], BIT));
    v.push(tuple_type(vec![scalar_type(UINT8), array_type(vec![9], BIT)]));
    v.push(vector_type(2, array_type(vec![2], INT64)));
    v.push(named_tuple_type(vec![
        ("a".into(), scalar_type(UINT128)),
        ("b".into(), tuple_type(vec![scalar_type(BIT), array_type(vec![2], INT16)])),
    ]));
    v.push(tuple_type(vec![
        vector_type(2, tuple_type(vec![scalar_type(INT32), array_type(vec![2], UINT64)])),
        scalar_type(BIT),
        tuple_type(vec![]),
    ]));
    v.push(vector_type(3, scalar_type(INT128)));
    v
}
/// Shape sweep: leaf types by BYTE LENGTH (every residue of the length modulo 8 with 0, 1, 2, ... whole
/// 64-bit words before it; bit arrays both byte-aligned and not), several ranks, and long leaves inside
/// containers.  `full`: every bit length 1..=300 and more lengths per scalar type.
fn c14_sweep_types(rng: &mut StdRng, full: bool) -> Vec<Type> {
    let mut v = vec![];
    // bit arrays: byte length bl, once byte-aligned and once with 1..7 bits in the last byte
    if full {
        for n in 1..=300u64 {
            v.push(array_type(vec![n], BIT));
        }
        for n in [511u64, 513, 1000, 1016, 1025, 2047] {
            v.push(array_type(vec![n], BIT));
        }
    } else {
        let mut bls: Vec<u64> = (1..=20).collect();
        bls.extend([23, 24, 25, 31, 32, 33, 47, 63, 64, 65, 125]);
        for bl in bls {
            v.push(array_type(vec![8 * bl], BIT));
            v.push(array_type(vec![8 * (bl - 1) + rng.gen_range(1..8)], BIT));
        }
    }
    for sh in [vec![5u64, 13], vec![11, 11], vec![3, 43], vec![2, 3, 20], vec![65, 1], vec![1, 129], vec![2, 2, 2, 2, 2, 2, 3], vec![7, 10]] {
        v.push(array_type(sh, BIT));
    }
    // the other scalar types: lengths covering every byte length modulo 8 and modulo 16
    for st in export::ALL_ST {
        if st == BIT {
            continue;
        }
        let ns: Vec<u64> = match (st.size_in_bits(), full) {
            (8, false) => (1..=18).chain([23, 24, 25, 33]).collect(),
            (8, true) => (1..=70).chain([127, 128, 129, 255]).collect(),
            (16, false) => vec![1, 2, 4, 5, 6, 7, 8, 9, 11, 13, 16, 17],
            (16, true) => (1..=36).chain([63, 64, 65]).collect(),
            (32, false) => vec![1, 2, 4, 5, 6, 7, 9],
            (32, true) => (1..=18).chain([31, 33]).collect(),
            (64, false) => vec![1, 2, 4, 5],
            (64, true) => (1..=9).chain([17]).collect(),
            (_, false) => vec![1, 2],
            (_, true) => (1..=5).collect(),
        };
        for n in ns {
            v.push(array_type(vec![n], st));
        }
    }
    v.push(array_type(vec![3, 5], UINT8));
    v.push(array_type(vec![3, 3], INT16));
    v.push(array_type(vec![1, 1], UINT128));
    v.push(array_type(vec![5, 1, 3], INT32));
    v.push(array_type(vec![3, 1, 1, 3], INT64));
    // long / unaligned leaves at every nesting level
    let lb = |rng: &mut StdRng| array_type(vec![8 * rng.gen_range(8..20) + rng.gen_range(1..8)], BIT);
    v.push(tuple_type(vec![scalar_type(UINT8), lb(rng)]));
    v.push(vector_type(2, lb(rng)));
    v.push(named_tuple_type(vec![
        ("a".into(), lb(rng)),
        ("b".into(), tuple_type(vec![lb(rng), array_type(vec![3], INT64)])),
    ]));
    v.push(vector_type(3, tuple_type(vec![scalar_type(BIT), lb(rng), array_type(vec![9], UINT8)])));
    v.push(tuple_type(vec![vector_type(2, named_tuple_type(vec![("k".into(), array_type(vec![11], INT8)), ("v".into(), lb(rng))]))]));
    v
}

/// Leaf types grouped by their size in bits (the layouts get_evaluator_result treats as interchangeable).
fn c14_layout_classes() -> Vec<Vec<Type>> {
    let a = |sh: &[u64], st: ScalarType| array_type(sh.to_vec(), st);
    vec![
        vec![scalar_type(BIT), a(&[1], BIT), a(&[1, 1], BIT)],
        vec![scalar_type(UINT8), scalar_type(INT8), a(&[8], BIT), a(&[1], INT8), a(&[2, 4], BIT)],
        vec![scalar_type(UINT16), scalar_type(INT16), a(&[2], UINT8), a(&[16], BIT), a(&[1], INT16)],
        vec![scalar_type(UINT32), scalar_type(INT32), a(&[4], UINT8), a(&[2], INT16), a(&[32], BIT), a(&[4, 8], BIT)],
        vec![scalar_type(UINT64), scalar_type(INT64), a(&[2], UINT32), a(&[8], INT8), a(&[64], BIT), a(&[4], UINT16)],
        vec![scalar_type(UINT128), scalar_type(INT128), a(&[2], UINT64), a(&[16], UINT8), a(&[128], BIT), a(&[2, 2], INT32)],
        vec![a(&[3], UINT8), a(&[24], BIT), a(&[3, 1], INT8), a(&[3, 8], BIT)],
        vec![a(&[9], UINT8), a(&[72], BIT), a(&[3, 3], INT8)],
        vec![a(&[5], INT16), a(&[10], UINT8), a(&[80], BIT), a(&[5, 16], BIT)],
        vec![a(&[3], INT32), a(&[6], UINT16), a(&[12], UINT8), a(&[96], BIT), a(&[3, 32], BIT)],
        vec![a(&[3], INT64), a(&[6], UINT32), a(&[24], INT8), a(&[192], BIT), a(&[3, 64], BIT)],
        vec![a(&[2], INT128), a(&[4], UINT64), a(&[8], INT32), a(&[256], BIT)],
        vec![a(&[5], UINT64), a(&[10], INT32), a(&[40], UINT8), a(&[320], BIT), a(&[5, 64], BIT)],
    ]
}
/// Pairs (declared type, graph type) of containers with the same tree whose leaves are drawn from the same class.
fn c14_layout_container_pairs(rng: &mut StdRng, n: usize) -> Vec<(Type, Type)> {
    let classes = c14_layout_classes();
    let leaf = |rng: &mut StdRng| {
        let c = &classes[rng.gen_range(0..classes.len())];
        (c[rng.gen_range(0..c.len())].clone(), c[rng.gen_range(0..c.len())].clone())
    };
    let mut v = vec![];
    for i in 0..n {
        let (a, b, c) = (leaf(rng), leaf(rng), leaf(rng));
        v.push(match i % 5 {
            0 => (tuple_type(vec![a.0, b.0]), tuple_type(vec![a.1, b.1])),
            1 => (vector_type(2, a.0), vector_type(2, a.1)),
            2 => (
                named_tuple_type(vec![("p".into(), a.0), ("q".into(), tuple_type(vec![b.0, c.0]))]),
                named_tuple_type(vec![("p".into(), a.1), ("q".into(), tuple_type(vec![b.1, c.1]))]),
            ),
            // a tuple is offered for a named tuple / vector of the same tree
            3 => (tuple_type(vec![a.0, b.0]), named_tuple_type(vec![("x".into(), a.1), ("y".into(), b.1)])),
            _ => (tuple_type(vec![a.0.clone(), a.0, tuple_type(vec![])]), tuple_type(vec![a.1.clone(), a.1, tuple_type(vec![])])),
        });
    }
    v
}

/// get_evaluator_result with a plain input `tv` (declared type dt) for a graph whose only input has type
/// (gt, gt, gt) and is the output: once unrevealed (the share triple the graph received), once revealed.
fn c14_ger_run(tv: &TypedValue, secj: &Json, gt: &Type) -> Json {
    let t3 = tuple_type(vec![gt.clone(), gt.clone(), gt.clone()]);
    let dtj = export::type_json(&tv.t);
    let call = |reveal: bool| {
        catch(AssertUnwindSafe(|| -> ciphercore_base::errors::Result<TypedValue> {
            let c = create_context()?;
            let g = c.create_graph()?;
            let i = g.input(t3.clone())?;
            i.set_as_output()?;
            g.finalize()?;
            c.set_main_graph(g)?;
            c.finalize()?;
            get_evaluator_result(c, vec![tv.clone()], reveal, SimpleEvaluator::new(None)?)
        }))
    };
    let fail = |what: &str| {
        json!({"api":"ger-".to_string() + what,"dt":dtj,"secret":secj,"hasshares":false,"shares":[],"parties":[],"reveal":secj,"revt":true})
    };
    let shared = match call(false) {
        Ok(Ok(x)) => x,
        other => return fail(res_of(&other)),
    };
    let rev = match call(true) {
        Ok(Ok(x)) => x,
        other => return fail(res_of(&other)),
    };
    let parts = match shared.value.to_vector() {
        Ok(p) if p.len() == 3 && shared.t == t3 => p,
        _ => return fail("shape"),
    };
    let shares: Vec<Json> = parts.iter().map(|x| tj(x, gt)).collect();
    json!({"api":"ger","dt":dtj,"secret":secj,"hasshares":true,"shares":shares,"parties":[],
        "reveal":tj(&rev.value, gt),"revt": rev.t == *gt})
}

fn c14_type_record(out: &mut impl Write, t: &Type, ti: u64, seed: u64, nseeds: u64, styles: &[u32], rng: &mut StdRng) {
    let secrets: Vec<VTree> = styles.iter().map(|s| random_tree(t, rng, *s)).collect();
    let t3 = tuple_type(vec![t.clone(), t.clone(), t.clone()]);
    let failed = |api: &str, what: &str, secj: &Json| {
        json!({"api":format!("{api}-{what}"),"secret":secj,"hasshares":false,"shares":[],"parties":[],"reveal":secj,"revt":true})
    };
    let mut seeds_json = vec![];
    for si in 0..nseeds {
        let sd = seed16(seed, ti + 1, si);
        let mut runs = vec![];
        for sec in &secrets {
            let sv = export::tree_to_value(sec, t).unwrap();
            let tv = TypedValue::new(t.clone(), sv.clone()).unwrap();
            let secj = export::tree_json(sec, t, Num::Limbs);
            // TypedValue API
            {
                let r = catch(AssertUnwindSafe(|| -> ciphercore_base::errors::Result<Json> {
                    let mut p = PRNG::new(Some(sd))?;
                    let shared = tv.secret_share(&mut p)?;
                    let shares: Vec<Json> = tuple3(&shared.value).iter().map(|x| tj(x, t)).collect();
                    let mut p = PRNG::new(Some(sd))?;
                    let parts = tv.get_local_shares_for_each_party(&mut p)?;
                    let parties: Vec<Json> = parts
                        .iter()
                        .map(|pt| {
                            assert!(pt.t == t3);
                            Json::Array(tuple3(&pt.value).iter().map(|x| tj(x, t)).collect())
                        })
                        .collect();
                    let rev = shared.secret_share_reveal()?;
                    Ok(json!({"api":"tv","secret":secj,"hasshares":true,"shares":shares,"parties":parties,
                        "reveal":tj(&rev.value, t),"revt": rev.t == *t}))
                }));
                match r {
                    Ok(Ok(j)) => runs.push(j),
                    other => runs.push(failed("tv", res_of(&other), &secj)),
                }
            }
            // ReplicatedShares API
            {
                let r = catch(AssertUnwindSafe(|| -> ciphercore_base::errors::Result<Json> {
                    let mut p = PRNG::new(Some(sd))?;
                    let rs = ReplicatedShares::secret_share_for_local_evaluation(tv.clone(), &mut p)?;
                    let tup = rs.to_tuple()?;
                    let shares: Vec<Json> = tuple3(&tup.value).iter().map(|x| tj(x, t)).collect();
                    let mut p = PRNG::new(Some(sd))?;
                    let parts = ReplicatedShares::secret_share_for_parties(tv.clone(), &mut p)?;
                    let mut parties: Vec<Json> = vec![];
                    for pt in parts.iter() {
                        parties.push(Json::Array(tuple3(&pt.to_tuple()?.value).iter().map(|x| tj(x, t)).collect()));
                    }
                    let rev = rs.reveal()?;
                    // a sharing rebuilt from a tuple (from_tuple) reveals the same
                    let rev2 = ReplicatedShares::from_tuple(tup)?.reveal()?;
                    Ok(json!({"api":"rs","secret":secj,"hasshares":true,"shares":shares,"parties":parties,
                        "reveal":tj(&rev.value, t),"revt": rev.t == *t && rev2 == rev}))
                }));
                match r {
                    Ok(Ok(j)) => runs.push(j),
                    other => runs.push(failed("rs", res_of(&other), &secj)),
                }
            }
            // share_vector (one-dimensional arrays)
            if let Type::Array(sh, st) = t {
                if sh.len() == 1 {
                    let data = match sec {
                        VTree::Leaf(xs) => xs.clone(),
                        _ => unreachable!(),
                    };
                    let mut p = PRNG::new(Some(sd)).unwrap();
                    let r = catch(AssertUnwindSafe(|| share_vector(&mut p, &data, *st)));
                    match r {
                        Ok(Ok(parts)) => {
                            let parties: Vec<Json> =
                                parts.iter().map(|pt| Json::Array(tuple3(pt).iter().map(|x| tj(x, t)).collect())).collect();
                            runs.push(json!({"api":"sv","secret":secj,"hasshares":false,"shares":[],"parties":parties,
                                "reveal":secj,"revt":true}));
                        }
                        other => runs.push(failed("sv", res_of(&other), &secj)),
                    }
                }
            }
            // get_evaluator_result: plain input for a shared (t,t,t) graph input
            if si == 0 {
                runs.push(c14_ger_run(&tv, &secj, t));
            }
        }
        seeds_json.push(json!({"seed": bytes_json(&sd), "runs": runs}));
    }
    writeln!(out, "{}", json!({"kind":"sh","t":export::type_json(t),"bits":get_size_in_bits(t.clone()).unwrap(),"seeds":seeds_json})).unwrap();
}

/// One record per graph type gt: plain inputs declared with every type dt of the same layout class.
fn c14_layout_record(out: &mut impl Write, gt: &Type, dts: &[Type], styles: &[u32], rng: &mut StdRng) {
    let mut runs = vec![];
    for dt in dts {
        for s in styles {
            let sec = random_tree(dt, rng, *s);
            let tv = TypedValue::new(dt.clone(), export::tree_to_value(&sec, dt).unwrap()).unwrap();
            let secj = export::tree_json(&sec, dt, Num::Limbs);
            runs.push(c14_ger_run(&tv, &secj, gt));
        }
    }
    writeln!(out, "{}", json!({"kind":"ly","t":export::type_json(gt),"bits":get_size_in_bits(gt.clone()).unwrap(),
        "seeds":[{"seed": [], "runs": runs}]})).unwrap();
}

fn cmd_c14(args: &[String]) {
    let mut out = std::io::BufWriter::new(std::fs::File::create(&args[0]).unwrap());
    let seed: u64 = args[1].parse().unwrap();
    let nseeds: u64 = args[2].parse().unwrap();
    let full = args.get(3).map(|x| x == "full").unwrap_or(false);
    let mut rng = StdRng::seed_from_u64(seed ^ 0xC14);
    let mut ti = 0u64;
    // 1. the catalogue of types: many seeds, four kinds of secrets
    for t in c14_types() {
        c14_type_record(&mut out, &t, ti, seed, nseeds, &[0, 1, 2, 3], &mut rng);
        ti += 1;
    }
    // 2. shape sweep: fewer seeds per shape (two secrets per seed are needed by masks_before_secret)
    let mut rng2 = StdRng::seed_from_u64(seed ^ 0xC14_5EE9);
    for t in c14_sweep_types(&mut rng2, full) {
        c14_type_record(&mut out, &t, ti, seed, if full { 3 } else { 2 }, &[2, 3], &mut rng2);
        ti += 1;
    }
    // 3. plain inputs declared with another type of the same layout
    let mut rng3 = StdRng::seed_from_u64(seed ^ 0xC14_1A70);
    let styles: &[u32] = if full { &[0, 1, 2, 3, 3] } else { &[1, 2, 3] };
    for class in c14_layout_classes() {
        for gt in &class {
            c14_layout_record(&mut out, gt, &class, styles, &mut rng3);
        }
    }
    for (dt, gt) in c14_layout_container_pairs(&mut rng3, if full { 200 } else { 40 }) {
        c14_layout_record(&mut out, &gt, &[dt, gt.clone()], styles, &mut rng3);
    }
}

// ------------------------------------------------------------------------------------------ C15 PRF

fn key_bytes(id: u64) -> Vec<u8> {
    // two unrelated fixed keys per id (id 1, 2, ...): bytes of a seeded generator
    seed16(0x5eed_c15, 77, id).to_vec()
}
fn key_value(id: u64) -> Value {
    Value::from_bytes(key_bytes(id))
}
fn ctr_value(id: u64) -> u64 {
    match id {
        1 => 0,
        2 => 1,
        3 => (1u64 << 63) + 5,
        4 => u64::MAX,
        n => n,
    }
}
struct PrfNodes {
    key: Node,
    cache: std::collections::HashMap<(u64, String), Node>,
}
impl PrfNodes {
    fn new() -> Self {
        let c = create_context().unwrap();
        let g = c.create_graph().unwrap();
        let key = g.input(array_type(vec![128], BIT)).unwrap();
        // the context must stay alive as long as the nodes
        std::mem::forget(c);
        PrfNodes { key, cache: Default::default() }
    }
    fn node(&mut self, iv: u64, ty: &Json) -> Node {
        let k = (iv, ty.to_string());
        if let Some(n) = self.cache.get(&k) {
            return n.clone();
        }
        let n = if ty["k"] == "perm" {
            self.key.permutation_from_prf(iv, ty["n"].as_u64().unwrap()).unwrap()
        } else {
            self.key.prf(iv, export::type_from_json(ty)).unwrap()
        };
        self.cache.insert(k, n.clone());
        n
    }
}
fn out_type(ty: &Json) -> Type {
    if ty["k"] == "perm" {
        array_type(vec![ty["n"].as_u64().unwrap()], UINT64)
    } else {
        export::type_from_json(ty)
    }
}
fn cmd_c15_prf(args: &[String]) {
    let cases = read_ndjson(&args[0]);
    let mut out = std::io::BufWriter::new(std::fs::File::create(&args[1]).unwrap());
    let header = cases.iter().find(|c| c["kind"] == "hdr").expect("header").clone();
    let types: Vec<Json> = header["types"].as_array().unwrap().clone();
    writeln!(out, "{}", header).unwrap();
    let mut nodes = PrfNodes::new();
    let mut seen = std::collections::HashSet::new();
    for c in cases.iter().filter(|c| c["kind"] == "h") {
        let ev: Vec<u64> = c["ev"].as_array().unwrap().iter().map(|x| x.as_u64().unwrap()).collect();
        let ky: Vec<u64> = c["key"].as_array().unwrap().iter().map(|x| x.as_u64().unwrap()).collect();
        let ct: Vec<u64> = c["ctr"].as_array().unwrap().iter().map(|x| x.as_u64().unwrap()).collect();
        let ty: Vec<u64> = c["ty"].as_array().unwrap().iter().map(|x| x.as_u64().unwrap()).collect();
        let nev = ev.iter().max().copied().unwrap_or(0) as usize;
        let mut evs: Vec<SimpleEvaluator> = (0..nev).map(|_| SimpleEvaluator::new(None).unwrap()).collect();
        let mut dgs = vec![];
        for i in 0..ev.len() {
            let tyj = &types[ty[i] as usize - 1];
            let node = nodes.node(ctr_value(ct[i]), tyj);
            let e = &mut evs[ev[i] as usize - 1];
            let r = catch(AssertUnwindSafe(|| e.evaluate_node(node.clone(), vec![key_value(ky[i])])));
            match r {
                Ok(Ok(v)) => {
                    dgs.push(digest(&v));
                    if seen.insert((ky[i], ct[i], ty[i])) {
                        // details of the first output of every (key, counter, type)
                        let mut lb = vec![];
                        last_bytes(&v, &mut lb);
                        let t = out_type(tyj);
                        let small = get_size_in_bits(t.clone()).unwrap() <= 64 * 400;
                        let perm = if tyj["k"] == "perm" && small {
                            json!(v.to_flattened_array_u64(t.clone()).unwrap())
                        } else {
                            json!([])
                        };
                        // the first 16-byte blocks of a byte-valued output (not of permutations): outputs under different
                        // (key, counter) must be unrelated, in particular they never share an aligned cipher block
                        let blk: Vec<String> = if tyj["k"] == "a" || tyj["k"] == "s" {
                            v.access_bytes(|b| {
                                Ok(b.chunks_exact(16).take(12).map(|c| c.iter().map(|x| format!("{:02x}", x)).collect::<String>()).collect())
                            })
                            .unwrap_or_default()
                        } else {
                            vec![]
                        };
                        writeln!(out, "{}", json!({"kind":"out","key":ky[i],"ctr":ct[i],"ty":ty[i],"dg":digest(&v),
                            "lay":layout(&v),"lastb":lb,"perm":perm,"bits":get_size_in_bits(t).unwrap(),"blk":blk})).unwrap();
                    }
                }
                other => dgs.push(res_of(&other).to_string()),
            }
        }
        writeln!(out, "{}", json!({"kind":"h","ev":ev,"key":ky,"ctr":ct,"ty":ty,"dg":dgs})).unwrap();
    }
}

// ------------------------------------------------------------------------------------------ C15 rejection / replay

fn div_witness(r: u64, m: u64) -> (Json, Json) {
    (limbs_u64(r / m), limbs_u64(r % m))
}
fn cmd_c15_rej(args: &[String]) {
    let mut out = std::io::BufWriter::new(std::fs::File::create(&args[0]).unwrap());
    let seed: u64 = args[1].parse().unwrap();
    let thorough = args.get(2).map(|x| x == "thorough").unwrap_or(false);
    let draws = 6usize;
    // (1) PRNG::get_random_in_range against the raw stream of an equally seeded PRNG
    let mut moduli: Vec<u64> = (1..=300).collect();
    let p63 = 1u64 << 63;
    moduli.extend([
        u32::MAX as u64, 1u64 << 32, (1u64 << 32) + 1, p63 - 1, p63, p63 + 1, p63 + 2, p63 + (1u64 << 62), u64::MAX, u64::MAX - 1,
        u64::MAX / 2 + 2, u64::MAX / 3 * 2 + 7, (1u64 << 62) + 1, 0xAAAA_AAAA_AAAA_AAAB, 6_148_914_691_236_517_206, 10_000_000_000_000_000_000,
        65_535, 65_536, 65_537, 1_000_003, (1u64 << 48) + 3,
    ]);
    for (mi, m) in moduli.iter().copied().enumerate() {
        let nseeds = if m > (1u64 << 33) { if thorough { 24 } else { 6 } } else { 1 };
        for si in 0..nseeds {
            let sd = seed16(seed, 1000 + mi as u64, si);
            let mut a = PRNG::new(Some(sd)).unwrap();
            let results: Vec<u64> = (0..draws).map(|_| a.get_random_in_range(Some(m)).unwrap()).collect();
            let tail = a.get_random_bytes(16).unwrap();
            let mut b = PRNG::new(Some(sd)).unwrap();
            let raw = b.get_random_bytes(8 * (draws + 120) + 16).unwrap();
            // hints for TLC (checked there): quotient of every accepted draw, quotient of the acceptance bound
            let mut qs = vec![];
            let mut pos = 0usize;
            let bound_plus1: u128 = ((1u128 << 64) / m as u128) * m as u128;
            let mut consumed = 0usize;
            for _ in 0..draws {
                loop {
                    let r = u64::from_le_bytes(raw[pos..pos + 8].try_into().unwrap());
                    pos += 8;
                    consumed += 1;
                    if (r as u128) < bound_plus1 {
                        qs.push(div_witness(r, m).0);
                        break;
                    }
                }
            }
            let nraw = consumed * 8 + 16;
            writeln!(out, "{}", json!({"kind":"range","m":limbs_u64(m),"small": m < (1u64 << 22), "mnat": if m < (1u64 << 22) { m } else { 0 },
                "res": results.iter().map(|x| limbs_u64(*x)).collect::<Vec<_>>(),
                "raw": bytes_json(&raw[..nraw.min(raw.len())]), "tail": bytes_json(&tail),
                "qs": qs, "qb": limbs_u128((1u128 << 64) / m as u128, 9)})).unwrap();
        }
    }
    // modulus None: the raw 64-bit draw
    {
        let sd = seed16(seed, 999, 0);
        let mut a = PRNG::new(Some(sd)).unwrap();
        let results: Vec<u64> = (0..draws).map(|_| a.get_random_in_range(None).unwrap()).collect();
        let mut b = PRNG::new(Some(sd)).unwrap();
        let raw = b.get_random_bytes(8 * draws).unwrap();
        writeln!(out, "{}", json!({"kind":"rangenone","res": results.iter().map(|x| limbs_u64(*x)).collect::<Vec<_>>(),"raw":bytes_json(&raw)})).unwrap();
    }
    // (2) Fisher-Yates permutations against the raw stream
    // long sessions (n > 256: draws of 3 bytes; the stream is produced in batches of ceil16(min(n, 512)), then 512 bytes:
    // 512 = 2 mod 3, so successive batch boundaries cut the 3-byte draws at every offset)
    let perm_ns: Vec<u64> = if thorough {
        vec![1, 2, 3, 5, 16, 17, 33, 64, 255, 256, 257, 258, 272, 273, 300, 400, 511, 512, 513, 700, 1000, 1500, 2000, 3000, 5000]
    } else {
        vec![1, 2, 3, 5, 16, 17, 33, 64, 256, 257, 300, 400, 513, 700, 1000, 1500]
    };
    // an upper bound of the bytes the shuffle of n elements reads (2, 3, 4 bytes per draw) plus room for rejected draws
    let stream_len = |n: u64| -> u64 {
        let b = 2 * n.min(256) + 3 * n.saturating_sub(256).min(65280) + 4 * n.saturating_sub(65536);
        b + b / 40 + 96
    };
    let mut nodes = PrfNodes::new();
    // the shuffle of n elements continues the shuffle of n0 elements: sessions of 2^16 and more draws (draws of 4 bytes
    // above 2^16; different keys / counters shift the offset at which the 512-byte batches cut them)
    let ext: Vec<(u64, u64, u64, u64)> = if thorough {
        vec![(65536, 68000, 1, 1), (65536, 68000, 2, 3), (65536, 68000, 1, 4), (65536, 68000, 2, 2), (65536, 68000, 1, 2), (65536, 68000, 2, 1),
             (65000, 66500, 1, 3), (30000, 33000, 2, 4), (5000, 9000, 1, 1), (600, 4000, 2, 3), (200, 3000, 1, 2)]
    } else {
        vec![(65536, 66700, 1, 1), (65536, 66700, 2, 3), (65536, 66700, 1, 4), (65300, 66000, 2, 2), (600, 2500, 1, 2)]
    };
    for (n0, n, kid, cid) in ext {
        let iv = ctr_value(cid);
        let p0 = nodes.node(iv, &json!({"k":"perm","n":n0}));
        let p1 = nodes.node(iv, &json!({"k":"perm","n":n}));
        let rn = nodes.node(iv, &export::type_json(&array_type(vec![stream_len(n)], UINT8)));
        let mut e0 = SimpleEvaluator::new(None).unwrap();
        let mut e1 = SimpleEvaluator::new(None).unwrap();
        let mut e2 = SimpleEvaluator::new(None).unwrap();
        let perm0 = e0.evaluate_node(p0, vec![key_value(kid)]).unwrap();
        let perm = e1.evaluate_node(p1, vec![key_value(kid)]).unwrap();
        let raw = e2.evaluate_node(rn, vec![key_value(kid)]).unwrap();
        writeln!(out, "{}", json!({"kind":"permext","n0":n0,"n":n,"key":kid,"ctr":cid,
            "perm0": perm0.to_flattened_array_u64(array_type(vec![n0], UINT64)).unwrap(),
            "perm": perm.to_flattened_array_u64(array_type(vec![n], UINT64)).unwrap(),
            "raw": bytes_json(&value_bytes(&raw).unwrap())})).unwrap();
    }
    for (i, n) in perm_ns.iter().copied().enumerate() {
        // PermutationFromPRF(key, iv, n) vs PRF(key, iv, u8[N]) from another evaluator
        let pairs: Vec<(u64, u64)> = if n > 256 { vec![(1, 1), (2, 3), (1, 4), (2, 2)] } else { vec![(1, 1), (2, 3)] };
        for (kid, cid) in pairs {
            let iv = ctr_value(cid);
            let pn = nodes.node(iv, &json!({"k":"perm","n":n}));
            let nraw = stream_len(n);
            let rn = nodes.node(iv, &export::type_json(&array_type(vec![nraw], UINT8)));
            let mut e1 = SimpleEvaluator::new(None).unwrap();
            let mut e2 = SimpleEvaluator::new(None).unwrap();
            let perm = e1.evaluate_node(pn, vec![key_value(kid)]).unwrap();
            let raw = e2.evaluate_node(rn, vec![key_value(kid)]).unwrap();
            writeln!(out, "{}", json!({"kind":"permprf","n":n,"key":kid,"ctr":cid,
                "perm": perm.to_flattened_array_u64(array_type(vec![n], UINT64)).unwrap(),
                "raw": bytes_json(&value_bytes(&raw).unwrap())})).unwrap();
        }
        // RandomPermutation(n) of a seeded evaluator vs the raw stream of an equally seeded PRNG
        if n <= 700 {
            let sd = seed16(seed, 2000 + i as u64, 0);
            let c = create_context().unwrap();
            let g = c.create_graph().unwrap();
            let node = g.random_permutation(n).unwrap();
            let mut e = SimpleEvaluator::new(Some(sd)).unwrap();
            let perm = e.evaluate_node(node, vec![]).unwrap();
            let mut b = PRNG::new(Some(sd)).unwrap();
            let raw = b.get_random_bytes(8 * (n as usize + 4)).unwrap();
            writeln!(out, "{}", json!({"kind":"permrng","n":n,
                "perm": perm.to_flattened_array_u64(array_type(vec![n], UINT64)).unwrap(),
                "raw": bytes_json(&raw)})).unwrap();
        }
    }
    // (3) a seeded generator replays exactly; generated values are in-domain
    let types: Vec<Type> = {
        let mut v = vec![];
        for st in export::ALL_ST {
            v.push(scalar_type(st));
            v.push(array_type(vec![3], st));
        }
        for n in [1u64, 7, 9, 13, 64, 65, 4097] {
            v.push(array_type(vec![n], BIT));
        }
        v.push(array_type(vec![513], UINT8));
        v.push(array_type(vec![5000], UINT8));
        v.push(tuple_type(vec![array_type(vec![5], BIT), vector_type(2, array_type(vec![33], UINT64)), scalar_type(BIT)]));
        v.push(named_tuple_type(vec![("a".into(), array_type(vec![3, 3], BIT)), ("b".into(), scalar_type(INT128))]));
        // the family of output types generated by spec/PRFModel.tla (header record of the case file of c15-prf)
        if let Some(p) = args.get(3) {
            let cases = read_ndjson(p);
            let header = cases.iter().find(|c| c["kind"] == "hdr").expect("header");
            for tj in header["types"].as_array().unwrap().iter().filter(|t| t["k"] != "perm") {
                v.push(export::type_from_json(tj));
            }
        }
        v
    };
    let nrep = if thorough { 8 } else { 3 };
    for si in 0..nrep {
        let sd = seed16(seed, 3000, si);
        let sd_other = seed16(seed, 3001, si);
        let run = |s: [u8; 16]| -> (Vec<String>, Vec<Json>) {
            let mut p = PRNG::new(Some(s)).unwrap();
            let mut dg = vec![];
            let mut outs = vec![];
            dg.push(digest_bytes(&p.get_random_bytes(5).unwrap()));
            for (ti, t) in types.iter().enumerate() {
                let v = p.get_random_value(t.clone()).unwrap();
                dg.push(digest(&v));
                let mut lb = vec![];
                last_bytes(&v, &mut lb);
                outs.push(json!({"t":export::type_json(t),"lay":layout(&v),"lastb":lb}));
                if ti % 3 == 0 {
                    dg.push(format!("r{}", p.get_random_in_range(Some(1000 + ti as u64)).unwrap()));
                    dg.push(digest_bytes(&p.get_random_bytes(ti + 1).unwrap()));
                }
            }
            dg.push(digest_bytes(&p.get_random_bytes(600).unwrap()));
            (dg, outs)
        };
        let (a, outs) = run(sd);
        let (b, _) = run(sd);
        let (c, _) = run(sd_other);
        // Random(t) nodes of two equally seeded evaluators
        let ctx = create_context().unwrap();
        let g = ctx.create_graph().unwrap();
        let rnodes: Vec<Node> = types.iter().map(|t| g.random(t.clone()).unwrap()).collect();
        let run_ev = |s: [u8; 16]| -> Vec<String> {
            let mut e = SimpleEvaluator::new(Some(s)).unwrap();
            rnodes.iter().map(|n| digest(&e.evaluate_node(n.clone(), vec![]).unwrap())).collect()
        };
        writeln!(out, "{}", json!({"kind":"replay","a":a,"b":b,"other":c,"outs":outs,"eva":run_ev(sd),"evb":run_ev(sd)})).unwrap();
    }
}

fn main() {
    quiet_panics();
    let args: Vec<String> = std::env::args().collect();
    if args.len() < 2 {
        eprintln!("usage: values c13-bytes|c13-json|c14|c15-prf|c15-rej ...");
        std::process::exit(2);
    }
    let rest = &args[2..];
    match args[1].as_str() {
        "c13-bytes" => cmd_c13_bytes(rest),
        "c13-json" => cmd_c13_json(rest),
        "c14" => cmd_c14(rest),
        "c15-prf" => cmd_c15_prf(rest),
        "c15-rej" => cmd_c15_rej(rest),
        c => {
            eprintln!("unknown command {c}");
            std::process::exit(2);
        }
    }
}
